import collections, itertools
from crysp.poly import *
fails=collections.Counter(); ex={}; n=0
def note(k,e): fails[k]+=1; ex.setdefault(k,e)
def chk(kind,args,f,exp):
    global n; n+=1
    try:
        r=f()
        got=(list(r.ival),r.size) if isinstance(r,SubPoly) else r
    except Exception as e: got='EXC '+type(e).__name__
    if got!=exp: note((kind,got if isinstance(got,str) else 'WRONG'),(args,got,exp))
for k in (1,2,3):
    q=1<<k
    vecs=[list(v) for d in range(0,4 if k<3 else 3) for v in itertools.product(range(q),repeat=d)]
    for a in vecs:
        A=Poly(a,k)
        chk('neg',(k,a),lambda:-A,([(-x)%q for x in a],k))
        chk('dim',(k,a),lambda:A.dim,len(a))
        for s in range(0,k+2):
            chk('shl',(k,a,s),lambda:A<<s,([(x<<s)%q for x in a],k))
            chk('shr',(k,a,s),lambda:A>>s,([x>>s for x in a],k))
        for i in range(-len(a),len(a)):
            chk('getint',(k,a,i),lambda:A[i],([a[i]],k))
        for st in range(0,len(a)+1):
            for sp in range(st,len(a)+1):
                for step in (1,2):
                    sel=a[st:sp:step]
                    chk('getslice',(k,a,st,sp,step),lambda:A[st:sp:step],(sel,k))
        for b in vecs:
            Bv=Poly(b,k); d=max(len(a),len(b))
            ea=a+[0]*(d-len(a)); eb=b+[0]*(d-len(b))
            same = 'eqdim' if len(a)==len(b) else ('adim<bdim' if len(a)<len(b) else 'adim>bdim')
            if d==0: same='empty'
            chk('add '+same,(k,a,b),lambda:A+Bv,([(x+y)%q for x,y in zip(ea,eb)],k))
            chk('sub '+same,(k,a,b),lambda:A-Bv,([(x-y)%q for x,y in zip(ea,eb)],k))
            chk('xor '+same,(k,a,b),lambda:A^Bv,([(x^y) for x,y in zip(ea,eb)],k))
            chk('and '+same,(k,a,b),lambda:A&Bv,([(x&y) for x,y in zip(ea,eb)],k))
            chk('or '+same,(k,a,b),lambda:A|Bv,([(x|y) for x,y in zip(ea,eb)],k))
            chk('cat '+same,(k,a,b),lambda:A//Bv,(a+b,k))
            if list(A.ival)!=a or list(Bv.ival)!=b: note(('mutated',''),(a,b))
# split/pack
for k in (8,16,24,32,64):
    for a in ([],[1],[0x0102030405060708&((1<<k)-1)],[(1<<k)-1,0,0x80],):
        A=Poly(a,k)
        exp=b''.join(x.to_bytes(k//8,'little') for x in a)
        chk('pack',(k,a),lambda:pack(A),exp)
        chk('split8',(k,a),lambda:A.split(8),(list(exp),8))
        expb=b''.join(x.to_bytes(k//8,'big') for x in a)
        chk('split8be',(k,a),lambda:A.split(8,True),(list(expb),8))
print(n,'cases')
for k,v in sorted(fails.items()): print(v,k,str(ex[k])[:150])
