import sys
sys.path.insert(0,__import__('os').path.dirname(__import__('os').path.abspath(__file__)))
from ref_md6 import md6
from crysp.md import MD6
for ln in (0,1,3,383,384,385,511,512,513,1024):
    M=bytes((i*7+3)&255 for i in range(ln))
    row=[]
    for key in (b'',b'k',b'K'*64):
        h=MD6(256,Key=key,L=0); h.rounds=2
        row.append(h(M)==md6(256,M,None,key,0,2))
    print(ln,row)
