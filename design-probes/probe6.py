from crysp.keccak import *
from crysp.utils.perms import *
from crysp.skein import *
from crysp.bits import *
from crysp.sha import SHA1
from crysp.nilsimsa import Nilsimsa
def tr(name,f):
    try: print(name,'->',f())
    except Exception as e: print(name,'!! %s: %s'%(type(e).__name__,e))
h=Keccak(b=25,r=5,len=8)
tr('keccak r=5 msg ignored?', lambda: (h(b'\x01',bitlen=3).hex(), h(b'\x07',bitlen=3).hex(), h(b'',bitlen=0).hex()))
h=Keccak(b=50,r=12,len=8)
tr('keccak r=12', lambda: (h(b'\x01\x02\x03').hex(), h(b'\x01\x02\x04').hex()))
tr('permutk k=1', lambda: list(permutk([1,2,3],1)))
tr('permutk rep', lambda: list(permutk([1,1],0)))
tr('nextperm []', lambda: nextperm([]))
tr('nextperm last', lambda: nextperm([3,2,1]))
# keccak duplex flag leak
k=Keccak(r=1024,c=576,len=64)
a=k(b'\x48',bitlen=5).hex(); k2=Keccak(r=1024,c=576,len=64); k2.duplex(b''); b=k2(b'\x48',bitlen=5).hex()
print('duplex flag leak', a,b)
n=Nilsimsa(); n.update(b'xyz'); print('nilsimsa leak', n(b'abcdefgh')==Nilsimsa()(b'abcdefgh'))
# Tweak position beyond
T=Tweak(Position=(1<<64)-8,Type='msg'); print(hex(T.ival))
u=UBI(Threefish,b'\0'*32,T)
tr('ubi near 2^64', lambda: u(b'a'*40).hex())
# SHA1 preset state
s=SHA1(); s.initstate(); s.padmethod.bitcnt=(1<<32)-512
tr('sha1 preset', lambda: s.update(b'abc',padding=True).hex())
