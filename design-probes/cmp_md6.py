import sys, collections
sys.path.insert(0,__import__('os').path.dirname(__import__('os').path.abspath(__file__)))
from ref_md6 import md6
from crysp.md import MD6
fails=collections.Counter(); ex={}
n=0
def run(d,key,L,r,M,bl):
    global n
    n+=1
    h=MD6(d,Key=key,L=L)
    if r is not None: h.rounds=r
    try: got=h(M,bl) if bl is not None else h(M)
    except Exception as e: got='EXC '+type(e).__name__
    exp=md6(d,M,bl,key[:64],L,r if r is not None else None)
    if got!=exp:
        nblk=max(1,-(-(bl if bl is not None else 8*len(M))//4096))
        k=(('L=%d'%L),'bitlen' if bl is not None else 'nobitlen','multi' if nblk>1 else 'single','keylen%d'%len(key) if len(key)>64 else '', got if isinstance(got,str) else 'WRONG')
        fails[k]+=1; ex.setdefault(k,(d,len(key),L,r,len(M),bl))
for L in (0,1,2,3,64):
    for ln in (0,1,3,383,384,385,511,512,513,1024,1025,1536,2048,2049,3000,8192,8193,8704):
        M=bytes((i*7+3)&255 for i in range(ln))
        for key in (b'',b'k',b'K'*64):
            run(256,key,L,8,M,None)
        for bl in (8*ln, 8*ln-1, 8*ln-7, 8*ln-9):
            if bl>0: run(256,b'',L,8,M,bl)
for d in list(range(1,513,17))+[7,8,9,511,512]:
    run(d,b'',64,None,b'abc',None)
    run(d,b'k',64,None,b'abc',None)
run(256,b'K'*65,64,1,b'abc',None)
print(n,'cases')
for k,v in sorted(fails.items()): print(v,k,ex[k])
