import copy, types
from crysp.bits import Bits
from crysp.poly import Poly,SubPoly
from crysp.sha import *; from crysp.md import *; from crysp.blake import *; from crysp.skein import *
from crysp.aes import AES; from crysp.des import *; from crysp.serpent import Serpent; from crysp.threefish import Threefish
from crysp.mode import *; from crysp.salsa20 import Salsa20; from crysp.chacha import Chacha; from crysp.rc4 import RC4
from crysp.hmac import HMAC; from crysp.tlsh import TLSH; from crysp.nilsimsa import Nilsimsa; from crysp.keccak import Keccak
def canon(o,depth=0,seen=None):
    if seen is None: seen={}
    if o is None or isinstance(o,(bool,int,float,str,bytes)): return o
    if isinstance(o,bytearray): return ('ba',bytes(o))
    if isinstance(o,Bits): return ('Bits',type(o).__name__,o.ival,o.size,o.mask)
    if isinstance(o,(list,tuple)): return (type(o).__name__,)+tuple(canon(x,depth+1,seen) for x in o)
    if isinstance(o,dict): return ('dict',)+tuple(sorted((repr(k),canon(v,depth+1,seen)) for k,v in o.items()))
    if isinstance(o,(types.FunctionType,types.MethodType,type)): return ('fn',getattr(o,'__qualname__',repr(o)))
    if id(o) in seen: return ('ref',seen[id(o)])
    seen[id(o)]=len(seen)
    d=getattr(o,'__dict__',None)
    if d is not None: return ('obj',type(o).__name__)+tuple(sorted((k,canon(v,depth+1,seen)) for k,v in d.items()))
    return ('atom',repr(o))
K=Bits(bytes(range(32)),bitorder=1)
objs=[SHA1(),SHA2(256),SHA2(512,224),SHA3(256),Keccak(r=1024,c=576,len=64),MD4(),MD5(),MD6(256),Blake(256),Blake2(512),Skein(256,256),
      AES(b'k'*16),DES(b'k'*8),TDEA(b'k'*16),Serpent(b'k'*16),Threefish(b'k'*32,b't'*16),ECB(AES(b'k'*16)),CBC(DES(b'k'*8),b'i'*8),CTR(AES(b'k'*16),b'i'*16),
      Salsa20(K),Chacha(K),RC4(b'k'),HMAC(SHA1(),b'k'),TLSH(128),Nilsimsa()]
for o in objs:
    try:
        c=copy.deepcopy(o)
        a,b=canon(o),canon(c)
        print(type(o).__name__, 'deepcopy ok', a==b, len(repr(a)))
    except Exception as e:
        print(type(o).__name__,'deepcopy FAIL',type(e).__name__,e)
