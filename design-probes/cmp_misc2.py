import collections, itertools, sys
from crysp.bits import Bits
from crysp.wb import *
from crysp.des import DES
from crysp.tlsh import TLSH, distance
from crysp.nilsimsa import Nilsimsa
from crysp.utils.perms import *
fails=collections.Counter(); ex={}; n=0
def note(k,e): fails[k]+=1; ex.setdefault(k,e)
def msg(l,p=0): return bytes((i*37+11+p)&255 for i in range(l))
# whitebox
M1,M2,M3=table_M1(),table_M2()[0],table_M3()
for key in [(1<<i).to_bytes(8,'big') for i in (0,1,7,8,31,63)]+[b'\0'*8,b'\xff'*8,bytes.fromhex('0101010101010101'),bytes.fromhex('1F1F1F1F0E0E0E0E'),msg(8,3)]:
    KT=[table_rKT(r,Bits(key,64))[1] for r in range(16)]
    W=WhiteDES(KT,M1,M2,M3); D=DES(key)
    for b in [(1<<i).to_bytes(8,'big') for i in range(0,64,5)]+[b'\0'*8,b'\xff'*8,msg(8,1)]:
        n+=1
        if W.enc(b)!=D.enc(b): note(('wb',key.hex()),b.hex())
print('wb done')
# TLSH smoke over configs
import math
texts={'ramp':lambda l:bytes((i*7+i//256)&255 for i in range(l)),'const':lambda l:b'a'*l,'two':lambda l:bytes(97+(i%2) for i in range(l)),
       'text':lambda l:(b'The quick brown fox jumps over the lazy dog. 0123456789 Lorem ipsum dolor sit amet, consectetur adipiscing elit; '*60)[:l]}
out=collections.Counter()
for bk in (48,128,256):
  for w in (4,5,6,7,8):
    for ck in (1,3):
      for l in (0,1,w-1,w,49,50,51,255,256,257,700,3300):
        for tn,tf in texts.items():
          for force in (False,True):
            n+=1
            try:
                r=TLSH(bk,w,ck)(tf(l),force)
                if r is None: out[('None',bk)]+=1
                else:
                    out[('digest',bk)]+=1
                    if len(r)!=ck+2+bk//4: note(('tlsh len',bk,w,ck),(l,tn))
                    T=TLSH(bk,w,ck).from_hash(r)
                    if T.digest().lsh_code!=r: note(('tlsh reload',bk),(l,tn))
            except Exception as e:
                note(('tlsh EXC '+type(e).__name__,bk, 'short' if l<50 or (l<256 and not force) else 'longenough'),(w,ck,l,tn,force))
print(out)
# perms
for nn in range(0,6):
    l=list(range(nn))
    for k in range(0,nn+1):
        n+=1
        l0=l[:]; got=sorted(permutk(l,k)); exp=sorted(l0[:k]+list(p) for p in itertools.permutations(l0[k:]))
        if got!=exp or l!=l0: note(('permutk',),(nn,k))
    for p in itertools.permutations(l):
        if nn==0: continue
        n+=1
        perms=sorted(itertools.permutations(l)); i=perms.index(p)
        exp=list(perms[(i+1)%len(perms)])
        try: got=nextperm(list(p))
        except Exception as e: got='EXC'
        if got!=exp: note(('nextperm distinct',),(p,got,exp))
print(n,'cases')
for k,v in sorted(fails.items()): print(v,k,ex[k])
