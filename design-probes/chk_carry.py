import subprocess,sys
sys.path.insert(0,__import__('os').path.dirname(__import__('os').path.abspath(__file__)))
from ref_stream import *
def pat(n,p): return bytes((i*73+p*31+7)&255 for i in range(n))
key=pat(32,9); nonce=pat(8,4)
for ctr in (0,(1<<32)-2,(1<<32)-1):
    iv=ctr.to_bytes(8,'little')+nonce
    r=subprocess.run(['openssl','enc','-chacha20','-K',key.hex(),'-iv',iv.hex(),'-nopad'],input=b'\0'*256,capture_output=True)
    print(ctr, r.stdout==stream(chacha_block,key,nonce,20,b'\0'*256,ctr0=ctr))
