import sys
sys.path.insert(0,__import__('os').path.dirname(__import__('os').path.abspath(__file__)))
from ref_md6 import compress
base=[(i*0x9e3779b97f4a7c15+12345)&((1<<64)-1) for i in range(89)]
for r in range(1,16):
    out=compress(base,r)[-4:]
    dead=[]
    for pos in range(89):
        for bit in (0,31,63):
            N=list(base); N[pos]^=1<<bit
            if compress(N,r)[-4:]==out: dead.append((pos,bit))
    print(r,'insensitive (pos,bit) count:',len(dead), dead[:6])
