import collections, itertools, hashlib, hmac as pyhmac, zlib, sys
sys.path.insert(0,__import__('os').path.dirname(__import__('os').path.abspath(__file__)))
from crysp.mode import *; from crysp.padding import *
from crysp.aes import AES; from crysp.des import DES,TDEA; from crysp.serpent import Serpent; from crysp.threefish import Threefish
from crysp.sha import *; from crysp.md import *; from crysp.blake import *
from crysp.hmac import HMAC
from crysp.crc import *
from crysp.bits import *
from ref_blake import blake
fails=collections.Counter(); ex={}; n=0
def note(k,e): fails[k]+=1; ex.setdefault(k,e)
def chk(kind,args,f,exp):
    global n; n+=1
    try: got=f()
    except Exception as e: got='EXC '+type(e).__name__
    if callable(exp): exp=exp()
    if got!=exp: note((kind,got if isinstance(got,str) else 'WRONG'),str(args)[:100])
def msg(l,p=0): return bytes((i*37+11+p)&255 for i in range(l))
def xor(a,b): return bytes(x^y for x,y in zip(a,b))
ciphers=[('aes128',lambda:AES(msg(16))),('aes256',lambda:AES(msg(32))),('des',lambda:DES(msg(8))),('tdea',lambda:TDEA(msg(16))),('serpent',lambda:Serpent(msg(16))),
         ('tf256',lambda:Threefish(msg(32),msg(16))),('tf512',lambda:Threefish(msg(64),msg(16))),('tf1024',lambda:Threefish(msg(128),msg(16)))]
def padspec(name,bl,M):
    q=bl-len(M)%bl
    if name=='pkcs7': return M+bytes([q])*q
    if name=='X923': return M+b'\0'*(q-1)+bytes([q])
    if name=='bitpadding': return M+b'\x80'+b'\0'*(q-1)
for cname,mk in ciphers:
    E=mk(); bl=E.blocksize//8
    for ln in (0,1,bl-1,bl,bl+1,2*bl,2*bl+3):
        M=msg(ln,3)
        for pname,pc in (('pkcs7',pkcs7),('X923',X923),('bitpadding',bitpadding)):
            P=padspec(pname,bl,M)
            exp=b''.join(E.enc(P[i:i+bl]) for i in range(0,len(P),bl))
            chk('ecb enc',(cname,pname,ln),lambda:ECB(mk(),pc).enc(M),exp)
            chk('ecb dec',(cname,pname,ln),lambda:ECB(mk(),pc).dec(exp),M)
            IV=msg(bl,9); c=[IV]
            for i in range(0,len(P),bl): c.append(E.enc(xor(P[i:i+bl],c[-1])))
            expc=b''.join(c)
            chk('cbc enc',(cname,pname,ln),lambda:CBC(mk(),IV,pc).enc(M),expc)
            chk('cbc dec',(cname,pname,ln),lambda:CBC(mk(),IV,pc).dec(expc),M)
        # CTR
        h=bl//2
        for cnt in (0,1,(1<<(8*h))-1,int.from_bytes(bytes(range(1,h+1)),'big')):
            nonce=msg(h,5); iv=nonce+cnt.to_bytes(h,'big')
            ks=b''.join(E.enc(nonce+((cnt+i)%(1<<(8*h))).to_bytes(h,'big')) for i in range(ln//bl+1))
            exp=xor(M,ks)
            tag='ctr enc half=%d'%h+(' cnt=seq' if cnt>1<<16 and cnt!=(1<<(8*h))-1 else '')
            chk(tag,(cname,ln,cnt),lambda:CTR(mk(),iv).enc(M),exp)
            chk('ctr dec',(cname,ln),lambda:CTR(mk(),iv).dec(exp),M)
        if ln>=bl:
            chk('cts_ecb len',(cname,ln),lambda:len(CTS_ECB(mk()).enc(M)),ln)
            chk('cts_cbc len',(cname,ln),lambda:len(CTS_CBC(mk(),msg(bl)).enc(M)),ln+bl)
            chk('cts_ecb rt whole' if ln%bl==0 else 'cts_ecb rt partial',(cname,ln),lambda:CTS_ECB(mk()).dec(CTS_ECB(mk()).enc(M)),M)
            chk('cts_cbc rt whole' if ln%bl==0 else 'cts_cbc rt partial',(cname,ln),lambda:CTS_CBC(mk(),msg(bl)).dec(CTS_CBC(mk(),msg(bl)).enc(M)),M)
# HMAC
def refh(name):
    return lambda m: hashlib.new(name,m).digest()
hs=[('md5',MD5(),refh('md5'),64),('sha1',SHA1(),refh('sha1'),64),('sha224',SHA2(224),refh('sha224'),64),('sha256',SHA2(256),refh('sha256'),64),
    ('sha384',SHA2(384),refh('sha384'),128),('sha512',SHA2(512),refh('sha512'),128),('sha512_224',SHA2(512,224),refh('sha512_224'),128),
    ('blake256',Blake(256),lambda m:blake(256,m),64),('blake512',Blake(512),lambda m:blake(512,m),128)]
def hmac_ref(h,bl,k,m):
    if len(k)>bl: k=h(k)
    k=k.ljust(bl,b'\0')
    return h(bytes(x^0x5c for x in k)+h(bytes(x^0x36 for x in k)+m))
for name,H,rh,bl in hs:
    for kl in (0,1,bl-1,bl,bl+1,2*bl):
        k=msg(kl,7)
        chk('hmac %s'%('klen>blk' if kl>bl else 'klen<=blk'),(name,kl),lambda:HMAC(H,k)(b'message'),hmac_ref(rh,bl,k,b'message'))
# streaming
def stream(mk,pieces,last):
    h=mk(); h.initstate()
    for p in pieces: h.update(p)
    return h.update(last,padding=True)
for name,mk in (('md4',MD4),('md5',MD5),('sha1',SHA1),('sha256',lambda:SHA2(256)),('sha512',lambda:SHA2(512)),('blake256',lambda:Blake(256)),('blake512',lambda:Blake(512)),('blake2s',lambda:Blake2(256)),('blake2b',lambda:Blake2(512))):
    bl=mk().blocksize//8
    for nblk in (0,1,2,3):
        for tail in (0,1,bl-1):
            M=msg(nblk*bl+tail,2)
            one=mk()(M)
            for cuts in itertools.product((0,1,2),repeat=2):
                if sum(cuts)>nblk: continue
                pieces=[];o=0
                for c in cuts: pieces.append(M[o:o+c*bl]); o+=c*bl
                chk('stream %s %s'%(name,'with-empty-piece' if 0 in cuts else 'nonempty'),(nblk,tail,cuts),lambda:stream(mk,pieces,M[o:]),one)
# crc generic
def crc_bitwise(P,w,data,init,fin):
    r=init
    for b in data:
        r^=b
        for _ in range(8): r=(r>>1)^P if r&1 else r>>1
    return r^fin
for w,P in ((8,0x8c),(8,0xe0),(9,0x1ff),(12,0xf01),(16,0xa001),(16,0x8408),(24,0xdf3261),(31,0x7fffffff),(32,0xedb88320),(33,0x1edb88320),(40,0x8c00000001),(64,0xc96c5795d7870f42)):
    T=crc_table(Bits(P,w))
    for ln in (0,1,2,5,9):
        for init,fin in ((0,0),((1<<w)-1,0),(0,(1<<w)-1),((1<<w)-1,(1<<w)-1)):
            chk('crc generic w=%d'%w,(P,ln,init,fin),lambda:crc(msg(ln),T,init,fin),crc_bitwise(P,w,msg(ln),init,fin))
print(n,'cases')
for k,v in sorted(fails.items()): print(v,k,ex[k])
