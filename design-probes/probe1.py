import hashlib, traceback
from crysp.bits import *
from crysp.poly import Poly
def tr(name,f):
    try:
        print(name,'->',f())
    except Exception as e:
        print(name,'!! %s: %s'%(type(e).__name__,e))
# Bits
tr('neg', lambda: (Bits(1,4)+(-Bits(1,4))).ival)
tr('neg0', lambda: (-Bits(0,4)).ival)
tr('neg sz0', lambda: (-Bits(0,0)).ival)
tr('mul int', lambda: (Bits(3,4)*3).ival)
tr('mul', lambda: (Bits(3,4)*Bits(7,3)).__repr__())
tr('rsub', lambda: repr(5-Bits(1,2)))
tr('radd', lambda: repr(5+Bits(1,2)))
tr('unpack be 12', lambda: hex(unpack(bytes(range(1,13)),True)[0]))
tr('unpack be 24', lambda: hex(unpack(bytes(range(1,25)),True)[0]))
tr('unpack be 16', lambda: hex(unpack(bytes(range(1,17)),True)[0]))
tr('unpack le 13', lambda: hex(unpack(bytes(range(1,14)))[0]))
tr('unpack empty', lambda: unpack(b''))
tr('bit(0) on size0', lambda: Bits(0,0).bit(0))
tr('str size 0', lambda: repr(str(Bits(0,0))))
tr('str 5', lambda: str(Bits(b'\x80',5)))
tr('getitem neg list', lambda: repr(Bits(5,4)[[-1]]))
tr('slice step2', lambda: repr(Bits(0b110101,6)[::2]))
tr('slice rev', lambda: repr(Bits(0b110101,6)[::-1]))
tr('slice empty', lambda: repr(Bits(0b110101,6)[4:2]))
b=Bits(0b110101,6)
def f():
    b[4:2]=0; return repr(b)
tr('setslice empty', f)
def f():
    b=Bits(0,6); b[0:4:2]=3; return repr(b)
tr('setslice step 3', f)
def f():
    b=Bits(0,6); b[0:4:2]=1; return repr(b)
tr('setslice step 1', f)
def f():
    b=Bits(0,6); b[0:4]=Bits(0x3f,6); return repr(b)
tr('setslice overflow', f)
def f():
    b=Bits(0b111111,6); b[-1]=0; return repr(b)
tr('set neg', f)
def f():
    b=Bits(0b111111,6); b[-6]=0; return repr(b)
tr('set -6', f)
tr('int(-1) size 0', lambda: Bits(0,0).int(-1))
tr('bytes size 12', lambda: Bits(0xabc,12).bytes())
tr('Bits(neg int)', lambda: repr(Bits(-3)))
tr('bitorder 3 on 4 bytes', lambda: repr(Bits(b'abcd',bitorder=3)))
tr('bitorder 0 on empty', lambda: repr(Bits(b'',bitorder=0)))
tr('lshift', lambda: repr(Bits(0xf,4)<<2))
tr('signext', lambda: repr(Bits(0b101,3).signextend(6)))
tr('signext0', lambda: repr(Bits(0,0).signextend(6)))
tr('split 0', lambda: repr(Bits(5,4).split(3)))
tr('hd', lambda: Bits(5,4).hd(Bits(3,4)))
tr('xor int bigger', lambda: repr(Bits(1,2)^0xff))
# Poly
tr('poly neg', lambda: (Poly([1,2],8)+(-Poly([1,2],8))).ival)
tr('poly or mismatch', lambda: ((Poly([1],8)|Poly([1,2],8)).ival, (Poly([1,2],8)|Poly([1],8)).ival))
tr('poly add mismatch', lambda: ((Poly([1],8)+Poly([1,2],8)).ival, (Poly([1,2],8)+Poly([1],8)).ival))
tr('poly and mismatch', lambda: ((Poly([1],8)&Poly([1,2],8)).ival, (Poly([1,2],8)&Poly([1],8)).ival))
tr('poly empty xor', lambda: (Poly([],8)^Poly([],8)).ival)
tr('poly empty dim', lambda: Poly([],8).dim)
tr('poly getitem neg', lambda: Poly([1,2,3],8)[-1].ival)
tr('poly slice', lambda: Poly([1,2,3],8)[1:].ival)
tr('poly slice beyond', lambda: Poly([1,2,3],8)[1:5].ival)
tr('poly slice neg step', lambda: Poly([1,2,3],8)[::-1].ival)
tr('poly Z', lambda: (Poly([1,2,3])-Poly([2,2,5])).ival)
tr('poly Z shift', lambda: (Poly([1,2,3])<<2).ival)
tr('poly lshift', lambda: (Poly([1,2,255],8)<<2).ival)
tr('poly split', lambda: Poly([0x0102,0x0304],16).split(8).ival)
tr('poly split be', lambda: Poly([0x0102,0x0304],16).split(8,True).ival)
tr('poly pack', lambda: pack(Poly([0x0102,0x0304],16)))
tr('poly pack 3', lambda: pack(Poly([1,2,7],3)))
tr('poly size 64', lambda: Poly([1],64).size)
tr('poly floordiv', lambda: (Poly([1],8)//Poly([2,3],8)).ival)
def f():
    p=Poly([1,2,3,4],8); p[1:3]=9; return p.ival
tr('poly set slice scalar', f)
def f():
    p=Poly([1,2,3,4],8); p[1:3]=[9]; return p.ival
tr('poly set slice short', f)
def f():
    p=Poly([1,2,3,4],8); p[[0,0]]=[5,6]; return p.ival
tr('poly set repeated', f)
tr('subpoly getitem', lambda: __import__('crysp.poly').poly.SubPoly([1,2,3],8)[1].ival)
