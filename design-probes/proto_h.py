import copy, types, collections, itertools
from crysp.bits import Bits
from crysp.poly import SubPoly
from crysp.sha import *; from crysp.md import *; from crysp.blake import *; from crysp.skein import Skein
from crysp.aes import AES; from crysp.des import DES; from crysp.mode import *; from crysp.hmac import HMAC
from crysp.tlsh import TLSH; from crysp.nilsimsa import Nilsimsa; from crysp.keccak import Keccak
from crysp.salsa20 import Salsa20
def canon(o,seen=None):
    if seen is None: seen={}
    if o is None or isinstance(o,(bool,int,float,str,bytes)): return o
    if isinstance(o,bytearray): return ('ba',bytes(o))
    if isinstance(o,Bits): return ('Bits',o.ival,o.size)
    if isinstance(o,(list,tuple)): return tuple(canon(x,seen) for x in o)
    if isinstance(o,dict): return tuple(sorted((repr(k),canon(v,seen)) for k,v in o.items()))
    if isinstance(o,(types.FunctionType,types.MethodType,type)): return ('fn',getattr(o,'__qualname__',''))
    if id(o) in seen: return ('ref',seen[id(o)])
    seen[id(o)]=len(seen)
    return (type(o).__name__,)+tuple(sorted((k,canon(v,seen)) for k,v in vars(o).items()))
def obs(f):
    try: return ('ok',f())
    except Exception as e: return ('exc',type(e).__name__)
def explore(name,fresh,events,depth=3):
    seen={canon(fresh())}; frontier=[[]]; trans=0; viol=collections.Counter()
    base={ev[0]:obs(lambda:ev[1](fresh())) for ev in events}
    for d in range(depth):
        nxt=[]
        for hist in frontier:
            for ev in events:
                o=fresh()
                for h in hist: obs(lambda:h[1](o))
                r=obs(lambda:ev[1](o)); trans+=1
                if r!=base[ev[0]]: viol[(ev[0],'after',tuple(h[0] for h in hist)[-1:])]+=1
                c=canon(o)
                if c not in seen: seen.add(c); nxt.append(hist+[ev])
        frontier=nxt
    print('%-10s states=%d transitions=%d violations=%s'%(name,len(seen),trans,dict(viol)))
m1=b'abc'; m2=bytes(range(200))
explore('SHA2-256',lambda:SHA2(256),[('h(m1)',lambda o:o(m1)),('h(m2)',lambda o:o(m2)),('h(m1,bitlen=20)',lambda o:o(m1,bitlen=20)),('h(bad bitlen)',lambda o:o(m1,bitlen=99)),('update(64B)',lambda o:o.update(b'x'*64))])
explore('Blake2b',lambda:Blake2(512),[('h(m1)',lambda o:o(m1)),('h(m2)',lambda o:o(m2)),('h(m1,outlen=20)',lambda o:o(m1,outlen=20)),('h(m1,salt)',lambda o:o(m1,salt=b's'*16))])
explore('Keccak',lambda:Keccak(r=1024,c=576,len=64),[('h(m1)',lambda o:o(m1)),('h(m1,5bits)',lambda o:o(m1,bitlen=5)),('h(m1,r=512)',lambda o:o(m1,r=512)),('duplex',lambda o:o.duplex(b'a'))])
explore('ECB-AES',lambda:ECB(AES(b'k'*16)),[('enc(m1)',lambda o:o.enc(m1)),('enc(32B)',lambda o:o.enc(b'x'*32)),('dec(bad)',lambda o:o.dec(b'y'*16)),('dec(good)',lambda o:o.dec(ECB(AES(b'k'*16)).enc(m1)))])
explore('CTR-AES',lambda:CTR(AES(b'k'*16),b'i'*16),[('enc(m1)',lambda o:o.enc(m1)),('enc(40B)',lambda o:o.enc(b'x'*40))])
explore('AES',lambda:AES(b'k'*16),[('enc',lambda o:o.enc(b'x'*16)),('dec',lambda o:o.dec(b'x'*16)),('enc(bad)',lambda o:o.enc(b'x'*15))])
explore('HMAC-MD5',lambda:HMAC(MD5(),b'key'),[('mac(m1)',lambda o:o(m1)),('mac(m2)',lambda o:o(m2))])
explore('TLSH',lambda:TLSH(128),[('h(long)',lambda o:o(m2*3)),('h(short)',lambda o:o(m1)),('update',lambda o:o.update(m2) and None)])
explore('Nilsimsa',lambda:Nilsimsa(),[('h(m1)',lambda o:o(m1)),('h(m2)',lambda o:o(m2)),('update',lambda o:o.update(m1) and None)])
explore('Skein',lambda:Skein(256,256),[('h(m1)',lambda o:o(m1)),('h(m2)',lambda o:o(m2)),('h(m1,bitlen=20)',lambda o:o(m1,bitlen=20))])
K=Bits(bytes(range(32)),bitorder=1); v1=Bits(bytes(range(8)),bitorder=1); v2=Bits(b'\xff'*8,bitorder=1)
explore('Salsa20/8',lambda:Salsa20(K,8),[('enc(v1,m1)',lambda o:o.enc(v1,m1)),('enc(v2,70B)',lambda o:o.enc(v2,b'x'*70)),('hash',lambda o:o.hash(b'y'*64))],depth=2)
explore('MD6',lambda:MD6(256,L=64),[('h(m1)',lambda o:o(m1)),('h(600B)',lambda o:o(b'z'*600))],depth=2)
