import sys, collections
sys.path.insert(0,__import__('os').path.dirname(__import__('os').path.abspath(__file__)))
from ref_skein import *
from crysp.skein import Skein, UBI, Tweak
from crysp.threefish import Threefish
fails=collections.Counter(); ex={}; n=0
def note(k,e):
    fails[k]+=1; ex.setdefault(k,e)
def cmp(kind,args,got_f,exp_f):
    global n; n+=1
    try: got=got_f()
    except Exception as e: got='EXC '+type(e).__name__
    exp=exp_f()
    if got!=exp: note((kind,got if isinstance(got,str) else 'WRONG'),args)
def msg(l): return bytes((i*11+5)&255 for i in range(l))
# threefish dec & enc on patterns
for nb in (32,64,128):
    for p in range(3):
        k=bytes((i*7+p)&255 for i in range(nb)); t=bytes((i*3+p)&255 for i in range(16)); b=bytes((i*5+p)&255 for i in range(nb))
        cmp('tf enc',(nb,p),lambda:Threefish(k,t).enc(b),lambda:tf_enc(k,t,b))
        cmp('tf dec',(nb,p),lambda:Threefish(k,t).dec(b),lambda:tf_dec(k,t,b))
# length sweep Nb=256
for L in range(0,2*256+10):
    M=msg((L+7)//8)
    cmp('len256 bitlen%%8=%d'%(L%8) if L%8 else ('len256 bitlen mult8' if L else 'len256 bitlen=0'),L,lambda:Skein(256,256)(M,bitlen=L),lambda:skein(256,256,M,L))
    if L%8==0: cmp('len256 nobitlen',L,lambda:Skein(256,256)(M),lambda:skein(256,256,M))
for Nb in (512,1024):
    for bl in (0,1,Nb//8-1,Nb//8,Nb//8+1,2*Nb//8,2*Nb//8+1):
        M=msg(bl)
        cmp('len%d nobitlen'%Nb,bl,lambda:Skein(Nb,Nb)(M),lambda:skein(Nb,Nb,M))
        for k in range(1,8):
            if bl: cmp('len%d bits'%Nb,(bl,k),lambda:Skein(Nb,Nb)(M,bitlen=8*bl-k),lambda:skein(Nb,Nb,M,8*bl-k))
# output sweep
for No in list(range(8,4*256+1,8)):
    cmp('out256 No<=Nb' if No<=256 else 'out256 No>Nb',No,lambda:Skein(256,No)(b'abc'),lambda:skein(256,No,b'abc'))
for Nb in (512,1024):
    for No in (8,Nb//2,Nb,Nb+8,2*Nb):
        cmp('out%d %s'%(Nb,'No<=Nb' if No<=Nb else 'No>Nb'),No,lambda:Skein(Nb,No)(b'abc'),lambda:skein(Nb,No,b'abc'))
# args
import itertools
for key in (None,b'',b'k',b'K'*32,b'K'*33):
    for sub in itertools.product((None,b'hello'),repeat=4):
        prs,PK,kdf,non=sub
        cmp('args key=%s'%('None' if key is None else 'empty' if key==b'' else 'set'),(key,sub),
            lambda:Skein(256,256,key=key,prs=prs,PK=PK,kdf=kdf,nonce=non)(b'abc'),
            lambda:skein(256,256,b'abc',key=key,prs=prs,PK=PK,kdf=kdf,nonce=non))
# tree
for Yl in (1,2,3):
  for Yf in (1,2,3):
    for Ym in (2,3,4):
      Nl=32<<Yl
      for ln in (0,1,Nl-1,Nl,Nl+1,2*Nl,4*Nl+3,9*Nl,17*Nl+1):
        M=msg(ln)
        cmp('tree empty' if ln==0 else 'tree',(Yl,Yf,Ym,ln),lambda:Skein(256,256,Yl=Yl,Yf=Yf,Ym=Ym)(M),lambda:skein(256,256,M,Yl=Yl,Yf=Yf,Ym=Ym))
# UBI positions
for p in ((1<<32)-32,(1<<64)-32,(1<<64)-1,1<<95):
    for ln in (1,32,33,64,96):
        M=msg(ln); G=bytes(range(32))
        cmp('ubi pos',(p,ln),lambda:UBI(Threefish,G,Tweak(Position=p,Type='msg'))(M),lambda:ubi(G,M,'msg',pos0=p))
print(n,'cases')
for k,v in sorted(fails.items()): print(v,k,ex[k])
