import time
from crysp.sha import SHA1,SHA2,SHA3,SHAKE128
from crysp.md import MD4,MD5,MD6
from crysp.aes import AES
from crysp.des import DES,TDEA
from crysp.serpent import Serpent
from crysp.threefish import Threefish
from crysp.blake import Blake,Blake2
from crysp.skein import Skein
from crysp.keccak import Keccak
from crysp.salsa20 import Salsa20
from crysp.chacha import Chacha
from crysp.rc4 import RC4
from crysp.bits import Bits
from crysp.tlsh import TLSH
from crysp.nilsimsa import Nilsimsa
from crysp.crc import crc32
def T(name,f,n=5):
    t=time.time()
    for i in range(n): f()
    print("%-20s %.2f ms"%(name,(time.time()-t)/n*1000))
T('sha1 1blk',lambda:SHA1()(b'a'*10))
T('sha0 1blk',lambda:SHA1(0)(b'a'*10))
T('sha256 1blk',lambda:SHA2(256)(b'a'*10))
T('sha512 1blk',lambda:SHA2(512)(b'a'*10))
T('md4 1blk',lambda:MD4()(b'a'*10))
T('md5 1blk',lambda:MD5()(b'a'*10))
T('md6 1blk',lambda:MD6(256)(b'a'*10),2)
T('aes128 enc',lambda:AES(b'k'*16).enc(b'a'*16))
T('aes256 dec',lambda:AES(b'k'*32).dec(b'a'*16))
T('des enc',lambda:DES(b'k'*8).enc(b'a'*8))
T('tdea enc',lambda:TDEA(b'k'*24 if False else b'k'*16).enc(b'a'*8))
T('serpent ctor',lambda:Serpent(b'k'*32))
s=Serpent(b'k'*32)
T('serpent enc',lambda:s.enc(b'a'*16))
T('tf256 enc',lambda:Threefish(b'k'*32,b't'*16).enc(b'a'*32))
T('tf512 enc',lambda:Threefish(b'k'*64,b't'*16).enc(b'a'*64))
T('tf1024 enc',lambda:Threefish(b'k'*128,b't'*16).enc(b'a'*128))
T('blake256',lambda:Blake(256)(b'a'*10))
T('blake512',lambda:Blake(512)(b'a'*10))
T('blake2s',lambda:Blake2(256)(b'a'*10))
T('blake2b',lambda:Blake2(512)(b'a'*10))
T('skein256',lambda:Skein(256,256)(b'a'*10))
T('skein512',lambda:Skein(512,512)(b'a'*10))
T('skein1024',lambda:Skein(1024,1024)(b'a'*10))
T('sha3-256',lambda:SHA3(256)(b'a'*10))
T('keccak200',lambda:Keccak(b=200,c=64,len=64)(b'a'*10))
T('keccak25',lambda:Keccak(b=25,c=9,len=16)(b'a'*1))
T('salsa20 64B',lambda:Salsa20(Bits(b'k'*32,bitorder=1)).enc(Bits(b'n'*8,bitorder=1),b'a'*64))
T('chacha20 64B',lambda:Chacha(Bits(b'k'*32,bitorder=1),20).enc(Bits(b'n'*8,bitorder=1),b'a'*64))
T('rc4 ksa',lambda:RC4(b'key'))
r=RC4(b'key')
T('rc4 64B',lambda:r.enc(b'a'*64))
T('tlsh 300B',lambda:TLSH(128)(bytes(range(256))+b'a'*44))
T('nilsimsa 100B',lambda:Nilsimsa()(b'a'*100))
T('crc32 100B',lambda:crc32(b'a'*100))
