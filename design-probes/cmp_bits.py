import collections, itertools
from crysp.bits import *
from crysp.utils.operators import rol,ror
fails=collections.Counter(); ex={}; n=0
def note(k,e): fails[k]+=1; ex.setdefault(k,e)
def chk(kind,args,f,exp):
    global n; n+=1
    try:
        r=f()
        got=(r.ival,r.size) if isinstance(r,Bits) else r
    except Exception as e: got='EXC '+type(e).__name__
    if got!=exp: note((kind,got if isinstance(got,str) else 'WRONG'),(args,got,exp))
W=5
vals=[(m,a) for m in range(W+1) for a in range(1<<m)]
for (m,a) in vals:
    A=Bits(a,m); M=(1<<m)-1
    chk('neg',(m,a),lambda:-A,((-a)&M,m))
    chk('inv',(m,a),lambda:~A,(a^M,m))
    chk('int-1',(m,a),lambda:A.int(-1),(a-(1<<m) if m and (a>>(m-1))&1 else a) if m else 'EXC IndexError')
    chk('str',(m,a),lambda:str(A),''.join(str((a>>i)&1) for i in range(m)))
    chk('bytes rt',(m,a),lambda:Bits(A.bytes(),size=m),(a,m))
    chk('bitlist rt',(m,a),lambda:Bits(A.bitlist()),(a,m))
    chk('hw',(m,a),lambda:A.hw(),bin(a).count('1'))
    for k in range(0,m+2):
        chk('shl',(m,a,k),lambda:A<<k,((a<<k)&M,m))
        chk('shr',(m,a,k),lambda:A>>k,(a>>k,m))
        if k<=m and m>0:
            chk('rol',(m,a,k),lambda:rol(A,k),((((a<<k)|(a>>(m-k)))&M) if k else a,m))
            chk('ror',(m,a,k),lambda:ror(A,k),((((a>>k)|(a<<(m-k)))&M) if k else a,m))
    for k in range(1,m+2):
        exp=[((a>>i)&((1<<min(k,m-i))-1),min(k,m-i)) for i in range(0,m,k)]
        chk('split',(m,a,k),lambda:[(x.ival,x.size) for x in A.split(k)],exp)
    for s in range(m,m+3):
        chk('zext',(m,a,s),lambda:Bits(A).zeroextend(s),(a,s))
        if m: 
            sv=a-(1<<m) if (a>>(m-1))&1 else a
            chk('sext',(m,a,s),lambda:Bits(A).signextend(s),(sv&((1<<s)-1),s))
    # indexing
    for i in range(-m-1,m+1):
        chk('getint',(m,a,i),lambda:A[i],(((a>>(i%m))&1,1) if m and -m<=i<m else 'EXC IndexError'))
    bl=[(a>>i)&1 for i in range(m)]
    for st in [None]+list(range(-m-1,m+2)):
        for sp in [None]+list(range(-m-1,m+2)):
            for step in (None,1,2,3,-1,-2):
                sel=bl[slice(st,sp,step)]
                chk('getslice step=%s'%step,(m,a,st,sp,step),lambda:A[st:sp:step],(sum(b<<i for i,b in enumerate(sel)),len(sel)))
                # setslice with all-ones complement value fits
                idx=list(range(m))[slice(st,sp,step)]
                if idx:
                    v=[1-bl[i] for i in idx]
                    nb=list(bl)
                    for i,x in zip(idx,v): nb[i]=x
                    def f():
                        X=Bits(a,m); X[st:sp:step]=v; return X
                    chk('setslice(list) step=%s'%step,(m,a,st,sp,step),f,(sum(b<<i for i,b in enumerate(nb)),m))
                    vi=sum(x<<i for i,x in enumerate(v))
                    def g():
                        X=Bits(a,m); X[st:sp:step]=Bits(vi,len(idx)); return X
                    chk('setslice(Bits) step=%s'%step,(m,a,st,sp,step),g,(sum(b<<i for i,b in enumerate(nb)),m))
    if m<=4:
        for ln in range(0,4):
            for idx in itertools.product(range(m),repeat=ln):
                chk('getlist',(m,a,idx),lambda:A[list(idx)],(sum(((a>>j)&1)<<i for i,j in enumerate(idx)),ln))
for (m,a) in vals:
    for (k,b) in vals:
        A=Bits(a,m); Bv=Bits(b,k); w=max(m,k); Mw=(1<<w)-1
        chk('add',(m,a,k,b),lambda:A+Bv,((a+b)&Mw,w))
        chk('sub',(m,a,k,b),lambda:A-Bv,((a-b)&Mw,w))
        chk('and',(m,a,k,b),lambda:A&Bv,(a&b,w))
        chk('or',(m,a,k,b),lambda:A|Bv,(a|b,w))
        chk('xor',(m,a,k,b),lambda:A^Bv,(a^b,w))
        chk('mul',(m,a,k,b),lambda:A*Bv,((a*b)&((1<<m)-1),m))
        chk('cat',(m,a,k,b),lambda:A//Bv,(a|(b<<m),m+k))
        wi=max(m,b.bit_length())
        chk('add int',(m,a,b),lambda:A+b,((a+b)&((1<<wi)-1),wi))
        chk('radd int',(m,a,b),lambda:b+A,((a+b)&((1<<wi)-1),wi))
        chk('rxor int',(m,a,b),lambda:b^A,(a^b,wi))
        if b.bit_length()<=m: chk('rsub int fit',(m,a,b),lambda:b-A,((b-a)&((1<<m)-1),m))
        if (A.ival,A.size,Bv.ival,Bv.size)!=(a,m,b,k): note(('operand mutated',''),(m,a,k,b))
print(n,'cases')
for k,v in sorted(fails.items()): print(v,k,ex[k])
