import time
from crysp.bits import Bits
from crysp.wb import *
from crysp.des import DES
from crysp.md import MD6
from crysp.tlsh import TLSH
from crysp.crc import *
from crysp.nilsimsa import Nilsimsa
t=time.time()
K=bytes.fromhex('0123456789ABCDEF'); bK=Bits(K,64)
KT=[table_rKT(r,bK)[1] for r in range(16)]
print('KT gen %.2fs'%(time.time()-t)); t=time.time()
M1,M2,M3=table_M1(),table_M2()[0],table_M3()
print('M gen %.2fs'%(time.time()-t)); t=time.time()
W=WhiteDES(KT,M1,M2,M3)
for i in range(5): c=W.enc(b'Now is t')
print('wb enc %.3fs'%((time.time()-t)/5), c==DES(K).enc(b'Now is t'))
print(type(KT[0]),len(KT[0]),len(KT[0][0]),type(M1),len(M1),type(M2),len(M2),type(M3),len(M3))
for r in (1,5,104):
    m=MD6(256,L=64); m.rounds=r
    t=time.time(); m(b'a'*2000); print('md6 rounds',r,'2000B (4+1 compress) %.3fs'%(time.time()-t))
t=time.time(); TLSH(256,8,3)(bytes(range(256))*4); print('tlsh 1KB w8 %.3f'%(time.time()-t))
t=time.time(); x=crc_table(Bits(0x8c,8)); print('crc_table %.4f'%(time.time()-t))
t=time.time(); Nilsimsa(200); print('nilsimsa ctor %.4f'%(time.time()-t))
