import subprocess, sys
from crysp.aes import AES
from crysp.des import DES,TDEA
from crysp.rc4 import RC4
from crysp.chacha import Chacha
from crysp.bits import Bits
def ossl(alg,key,data,iv=None,dec=False):
    cmd=['openssl','enc','-'+alg,'-K',key.hex(),'-nopad','-provider','legacy','-provider','default']
    if iv is not None: cmd+=['-iv',iv.hex()]
    if dec: cmd.append('-d')
    r=subprocess.run(cmd,input=data,capture_output=True)
    assert r.returncode==0,r.stderr
    return r.stdout
def pat(n,p): return bytes((i*73+p*31+7)&255 for i in range(n))
bad=0
# DES: single-bit keys, blocks
blocks=[(1<<i).to_bytes(8,'big') for i in range(64)]+[pat(8,p) for p in range(8)]
for ki in list(range(64))+['z','o']+list(range(100,104)):
    key=(1<<ki).to_bytes(8,'big') if isinstance(ki,int) and ki<64 else (b'\0'*8 if ki=='z' else b'\xff'*8 if ki=='o' else pat(8,ki))
    exp=ossl('des-ecb',key,b''.join(blocks))
    D=DES(key)
    for i,b in enumerate(blocks[::7]):
        j=i*7
        if D.enc(b)!=exp[8*j:8*j+8]: bad+=1; print('DES enc mismatch',key.hex(),b.hex())
        if D.dec(exp[8*j:8*j+8])!=b: bad+=1; print('DES dec mismatch',key.hex(),b.hex())
print('DES done',bad)
# TDEA
k1,k2,k3=pat(8,1),pat(8,2),pat(8,3)
data=b''.join(blocks[:16])
e3=ossl('des-ede3',k1+k2+k3,data); e2=ossl('des-ede',k1+k2,data)
T=TDEA(k1,k2,k3); print('TDEA 3key sep', all(T.enc(blocks[i])==e3[8*i:8*i+8] and T.dec(e3[8*i:8*i+8])==blocks[i] for i in range(0,16,5)))
T=TDEA(k1+k2); print('TDEA 2key str', all(T.enc(blocks[i])==e2[8*i:8*i+8] for i in range(0,16,5)))
# AES
blocks=[(1<<i).to_bytes(16,'big') for i in range(0,128,9)]+[pat(16,p) for p in range(6)]+[bytes([v])*16 for v in range(0,256,5)]
for nk in (16,24,32):
    for p in range(3):
        key=pat(nk,p)
        exp=ossl('aes-%d-ecb'%(nk*8),key,b''.join(blocks))
        A=AES(key)
        for i,b in enumerate(blocks):
            if A.enc(b)!=exp[16*i:16*i+16]: bad+=1; print('AES enc mismatch',nk,p,i)
            if i%5==0 and A.dec(exp[16*i:16*i+16])!=b: bad+=1; print('AES dec mismatch',nk,p,i)
print('AES done',bad)
# RC4
for kl in (1,5,16,40,255,256):
    key=pat(kl,kl)
    try:
        exp=ossl('rc4',key,b'\0'*300) if kl in(5,16) else None
    except AssertionError as e: exp=None
    if exp: print('RC4 kl',kl, RC4(key).enc(b'\0'*300)==exp)
# chacha20 (256-bit key, 20 rounds), iv=counter(8 LE... 16 bytes words 12..15)
key=pat(32,9)
for ctr in (0,1,(1<<32)-2):
    nonce=pat(8,4)
    iv=ctr.to_bytes(8,'little')+nonce
    exp=ossl('chacha20',key,b'\0'*256,iv=iv)
    C=Chacha(Bits(key,bitorder=1),rounds=20)
    if ctr==0:
        got=C.enc(Bits(nonce,bitorder=1),b'\0'*256)
        print('chacha20 ctr0',got==exp)
    else:
        print('chacha20 openssl ctr',ctr,'first bytes',exp[:8].hex(), exp[128:136].hex())
