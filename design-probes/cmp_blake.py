import sys, collections, hashlib
sys.path.insert(0,__import__('os').path.dirname(__import__('os').path.abspath(__file__)))
from ref_blake import blake
from crysp.blake import Blake, Blake2
fails=collections.Counter(); ex={}; n=0
def cmp(kind,args,got_f,exp_f):
    global n; n+=1
    try: got=got_f()
    except Exception as e: got='EXC '+type(e).__name__
    exp=exp_f()
    if got!=exp:
        k=(kind,got if isinstance(got,str) else 'WRONG'); fails[k]+=1; ex.setdefault(k,args)
def msg(l,p=0): return bytes((i*11+5+p)&255 for i in range(l))
for nn in (224,256,384,512):
    B=1024 if nn>256 else 512; cs=B//8
    Ls=set()
    for c in (0,B-cs-2,B,2*B-cs-2,2*B):
        for d in range(-9,10):
            if c+d>=0: Ls.add(c+d)
    for L in sorted(Ls):
        M=msg((L+7)//8)
        cmp('blake%d bitlen'%nn,L,lambda:Blake(nn)(M,bitlen=L) if L else Blake(nn)(M),lambda:blake(nn,M,L))
        for salt in (1,(1<<(B//4))-1,0x0123456789abcdef<<17):
            if L%37==0: cmp('blake%d salt'%nn,(L,salt),lambda:Blake(nn)(M,s=salt,bitlen=L or None),lambda:blake(nn,M,L,salt))
        if L%8==3: 
            M2=M+b'\xaa'*(B//8)
            cmp('blake%d container'%nn,L,lambda:Blake(nn)(M2,bitlen=L),lambda:blake(nn,M,L))
    for bl in range(0,4*B//8+2,1 if nn==256 else 13):
        M=msg(bl,1); cmp('blake%d bytes'%nn,bl,lambda:Blake(nn)(M),lambda:blake(nn,M))
# blake2
for bl in range(0,4*64+2):
    M=msg(bl); cmp('blake2s len %s'%('<=1blk' if bl<=64 else '>1blk'),bl,lambda:Blake2(256)(M),lambda:hashlib.blake2s(M).digest())
for bl in range(0,4*128+2,3):
    M=msg(bl); cmp('blake2b len %s'%('<=1blk' if bl<=128 else '>1blk'),bl,lambda:Blake2(512)(M),lambda:hashlib.blake2b(M).digest())
for ol in range(1,65):
    cmp('blake2b outlen',ol,lambda:Blake2(512)(b'abc',outlen=ol),lambda:hashlib.blake2b(b'abc',digest_size=ol).digest())
    if ol<=32: cmp('blake2s outlen',ol,lambda:Blake2(256)(b'abc',outlen=ol),lambda:hashlib.blake2s(b'abc',digest_size=ol).digest())
import itertools
for fan,dep,leaf,noff,nd,inner in itertools.product((0,1,255),(1,2,255),(0,1,(1<<32)-1),(0,1,(1<<48)-1),(0,1,255),(0,1,32)):
    kw=dict(fanout=fan,depth=dep,leafl=leaf,noffset=noff,ndepth=nd,inner=inner)
    cmp('blake2s tree',kw,lambda:Blake2(256)(b'abc',salt=b'saltsalt',pers=b'perspers',**kw),
        lambda:hashlib.blake2s(b'abc',salt=b'saltsalt',person=b'perspers',fanout=fan,depth=dep,leaf_size=leaf,node_offset=noff,node_depth=nd,inner_size=inner).digest())
for fan,dep,leaf,noff,nd,inner in itertools.product((0,255),(1,255),(0,(1<<32)-1),(0,1,(1<<64)-1),(0,255),(0,64)):
    kw=dict(fanout=fan,depth=dep,leafl=leaf,noffset=noff,ndepth=nd,inner=inner)
    cmp('blake2b tree',kw,lambda:Blake2(512)(b'abc',salt=b's'*16,pers=b'p'*16,**kw),
        lambda:hashlib.blake2b(b'abc',salt=b's'*16,person=b'p'*16,fanout=fan,depth=dep,leaf_size=leaf,node_offset=noff,node_depth=nd,inner_size=inner).digest())
print(n,'cases')
for k,v in sorted(fails.items()): print(v,k,ex[k])
