from crysp.md import MD6
from crysp.mode import *
from crysp.threefish import Threefish
from crysp.bits import *
def tr(name,f):
    try: print(name,'->',f())
    except Exception as e: print(name,'!! %s: %s'%(type(e).__name__,e))
m=MD6(256,L=64); m.rounds=2
tr('md6 L=64 600B bitlen=4799', lambda: m(b'a'*600,bitlen=4799).hex())
tr('md6 L=64 600B bitlen=4800', lambda: (m(b'a'*600,bitlen=4800)==m(b'a'*600)))
tr('md6 L=64 100B bitlen=799', lambda: m(b'a'*100,bitlen=799).hex())
tr('md6 L=1 3000B', lambda: MD6(256,L=1)(b'a'*3000).hex()[:16])
# CTR threefish-512 counter decode
T=Threefish(b'k'*64,b't'*16)
iv=bytes(range(64))
c=CTR(T,iv); c.counter.reset()
print(hex(c.counter.count.ival), c.counter.count.size)
print(hex(int.from_bytes(iv[32:],'big')))
