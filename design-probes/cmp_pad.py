import collections
from crysp.padding import *
from crysp.bits import Bits
fails=collections.Counter(); ex={}; n=0
def note(k,e): fails[k]+=1; ex.setdefault(k,e)
def tobits(M,L): return [(M[i//8]>>(7-i%8))&1 for i in range(L)]
def frombits(b):
    o=bytearray((len(b)+7)//8)
    for i,x in enumerate(b):
        if x: o[i//8]|=0x80>>(i%8)
    return bytes(o)
def spec(name,B,bits,ws=None,hs=None):
    L=len(bits)
    if name=='nopadding': return bits
    if name=='Nullpadding':
        k=max(1,-(-L//B)); return bits+[0]*(k*B-L)
    if name=='bitpadding':
        out=bits+[1]; return out+[0]*((-len(out))%B)
    if name in('pkcs7','X923'):
        assert L%8==0
        bl=B//8; q=bl-(L//8)%bl
        padb=bytes([q])*q if name=='pkcs7' else b'\0'*(q-1)+bytes([q])
        return bits+tobits(padb,8*q)
    if name in('MDpadding','SHApadding','Blakepadding'):
        cs=2*ws; out=bits+[1]
        extra=1 if name=='Blakepadding' else 0
        out+= [0]*((-(len(out)+cs+extra))%B)
        if name=='Blakepadding': out+=[1 if hs in(256,512) else 0]
        if name=='MDpadding':
            lb=L.to_bytes(cs//8,'little')
        else: lb=L.to_bytes(cs//8,'big')
        return out+tobits(lb,cs)
def msg(l): return bytes((i*37+11)&255 for i in range(l))
def run(name,mk,B,M,L,ws=None,hs=None,bitgran=True):
    global n; n+=1
    p=mk()
    bits=tobits(M,L if L is not None else 8*len(M))
    exp=spec(name,B,bits,ws,hs)
    try:
        blocks=[];cnts=[]
        kw={} if L is None else {'bitlen':L}
        for b in p.iterblocks(M,**kw):
            blocks.append(b); cnts.append((p.bitcnt,p.padcnt,p.padflag))
    except Exception as e:
        note((name,'iter EXC '+type(e).__name__),(B,len(M),L)); return
    got=b''.join(blocks)
    Lb=len(bits)
    if name=='nopadding':
        ok = got==frombits(exp)
    else:
        ok = (len(got)*8==len(exp) and tobits(got,len(exp))==exp)
    if not ok: note((name,'content'),(B,len(M),L)); return
    if name!='nopadding' and any(len(b)*8!=B for b in blocks): note((name,'blocklen'),(B,len(M),L))
    # counters
    for i,(bc,pc,pf) in enumerate(cnts):
        msgbits_in_block=max(0,min(Lb,(i+1)*B)-i*B)
        expbc=min(Lb,(i+1)*B) if (msgbits_in_block>0 or i==0) else 0
        if name in('MDpadding','SHApadding','Blakepadding','bitpadding','pkcs7','X923') and msgbits_in_block==0 and i>0: expbc=0
        if bc!=expbc: note((name,'bitcnt'),(B,len(M),L,i,bc,expbc)); break
    if name in('Nullpadding','bitpadding','pkcs7','X923'):
        if cnts[-1][1]!=len(exp)-Lb: note((name,'padcnt'),(B,len(M),L,cnts[-1][1],len(exp)-Lb))
    # remove
    try:
        r=p.remove(got)
        if r!=frombits(bits): note((name,'remove wrong'),(B,len(M),L,r[:8]))
    except Exception as e:
        note((name,'remove EXC '+type(e).__name__),(B,len(M),L))
for B in (8,16,32,64,128,512,1024):
    bl=B//8
    lens=sorted(set([0,1,2,bl-1,bl,bl+1,2*bl-1,2*bl,2*bl+1,3*bl]) ) if bl>4 else range(0,3*bl+2)
    for ln in lens:
        if ln<0: continue
        M=msg(ln)
        for name,cls in (('nopadding',nopadding),('Nullpadding',Nullpadding),('bitpadding',bitpadding),('pkcs7',pkcs7),('X923',X923)):
            run(name,lambda:cls(B),B,M,None)
            if name in('Nullpadding','bitpadding') and ln:
                for k in range(1,8): run(name,lambda:cls(B),B,M,8*ln-k)
                run(name,lambda:cls(B),B,M+b'\xaa'*(bl+1),8*ln-3)
for ws,B in ((32,512),(64,1024),(32,128),(32,72),(64,136)):
    bl=B//8; cb=ws//4
    for ln in sorted(set([0,1,bl-cb-2,bl-cb-1,bl-cb,bl-cb+1,bl-1,bl,bl+1,2*bl-cb-1,2*bl-cb,2*bl,2*bl+1])):
        if ln<0: continue
        M=msg(ln)
        for name,cls in (('MDpadding',MDpadding),('SHApadding',SHApadding)):
            run(name,lambda:cls(B,ws),B,M,None,ws)
            if ln:
                for k in range(1,8): run(name,lambda:cls(B,ws),B,M,8*ln-k,ws)
for hs in (224,256,384,512):
    B=1024 if hs>256 else 512; ws=B//16; bl=B//8; cb=ws//4
    for ln in sorted(set([0,1,bl-cb-2,bl-cb-1,bl-cb,bl-cb+1,bl-1,bl,bl+1,2*bl-cb-1,2*bl-cb,2*bl,2*bl+1])):
        M=msg(ln)
        run('Blakepadding',lambda:Blakepadding(hs),B,M,None,ws,hs)
        if ln:
            for k in range(1,8): run('Blakepadding',lambda:Blakepadding(hs),B,M,8*ln-k,ws,hs)
print(n,'cases')
for k,v in sorted(fails.items()): print(v,k,ex[k])
