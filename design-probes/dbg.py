import sys
sys.path.insert(0,__import__('os').path.dirname(__import__('os').path.abspath(__file__)))
from ref_md6 import md6
from crysp.md import MD6, Q
from crysp.poly import Poly
def H(key,M,L=0):
    h=MD6(256,Key=key,L=L); h.rounds=2; return h(M).hex()[:16]
M=b'a'*400
print(H(b'k',M),H(b'j',M),md6(256,M,None,b'k',0,2).hex()[:16],md6(256,M,None,b'j',0,2).hex()[:16])
print(H(b'K'*64,M),H(b'J'*64,M))
W = Poly(Q,64,dim=89)//Poly(MD6(256,Key=b'k').K,64)
print(W.dim, [hex(x) for x in W.ival[14:25]], [hex(x) for x in W.ival[88:]])
