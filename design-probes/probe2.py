import hashlib, hmac as pyhmac, zlib
from crysp.bits import *
from crysp.poly import Poly
from crysp.sha import *
from crysp.md import *
from crysp.blake import *
from crysp.aes import AES,gmul
from crysp.des import DES,TDEA
from crysp.serpent import Serpent
from crysp.mode import *
from crysp.padding import *
from crysp.hmac import HMAC
from crysp.rc4 import RC4
from crysp.skein import Skein
from crysp.tlsh import TLSH,tlsh
from crysp.crc import *
from crysp.utils.perms import *
from crysp.utils.knapsack import *
def tr(name,f):
    try:
        print(name,'->',f())
    except Exception as e:
        print(name,'!! %s: %s'%(type(e).__name__,e))
# hashes vs hashlib at boundaries
for n in (0,1,55,56,57,63,64,65,111,112,119,120,127,128,129,200):
    m=bytes((i*7+3)&0xff for i in range(n))
    ok = [SHA1()(m)==hashlib.sha1(m).digest(), SHA2(224)(m)==hashlib.sha224(m).digest(), SHA2(256)(m)==hashlib.sha256(m).digest(),
          SHA2(384)(m)==hashlib.sha384(m).digest(), SHA2(512)(m)==hashlib.sha512(m).digest(), MD5()(m)==hashlib.md5(m).digest(),
          SHA2(512,224)(m)==hashlib.new('sha512_224',m).digest(), SHA2(512,256)(m)==hashlib.new('sha512_256',m).digest(),
          SHA3(256)(m)==hashlib.sha3_256(m).digest(), SHA3(224)(m)==hashlib.sha3_224(m).digest(),SHA3(384)(m)==hashlib.sha3_384(m).digest(),
          SHAKE128(m,256)==hashlib.shake_128(m).digest(32), SHAKE256(m,4096)==hashlib.shake_256(m).digest(512),
          Blake2(512)(m)==hashlib.blake2b(m).digest(), Blake2(256)(m)==hashlib.blake2s(m).digest()]
    print(n,ok)
tr('sha1 bitlen too big', lambda: SHA1()(b'ab',bitlen=17))
tr('sha1 bitlen=16 vs none', lambda: SHA1()(b'ab',bitlen=16)==SHA1()(b'ab'))
tr('sha1 upd empty', lambda: SHA1().update(b'',padding=False))
tr('blake2b outlen', lambda: (Blake2(512)(b'abc',outlen=20)==hashlib.blake2b(b'abc',digest_size=20).digest()))
tr('blake2b salt', lambda: (Blake2(512)(b'abc',salt=b's'*16,pers=b'p'*16)==hashlib.blake2b(b'abc',salt=b's'*16,person=b'p'*16).digest()))
tr('blake2b short salt', lambda: (Blake2(512)(b'abc',salt=b's'*3)==hashlib.blake2b(b'abc',salt=b's'*3).digest()))
tr('blake2s tree', lambda: (Blake2(256)(b'abc',fanout=2,depth=3,leafl=5,noffset=7,ndepth=1,inner=16)==hashlib.blake2s(b'abc',fanout=2,depth=3,leaf_size=5,node_offset=7,node_depth=1,inner_size=16).digest()))
b2=Blake2(512)
tr('blake2b state leak', lambda: (b2(b'abc',outlen=20), b2(b'abc')==hashlib.blake2b(b'abc').digest()))
# gmul
tr('gmul(3,0)', lambda: gmul(3,0))
tr('gmul(0,3)', lambda: gmul(0,3))
# AES wrong sizes
a=AES(b'k'*16)
tr('aes enc 15', lambda: a.enc(b'a'*15))
tr('aes enc 17', lambda: a.enc(b'a'*17))
tr('aes enc 32', lambda: a.enc(b'a'*32))
tr('aes dec 32', lambda: a.dec(b'a'*32))
tr('aes key 17', lambda: AES(b'k'*17))
tr('serpent key 33', lambda: Serpent(b'k'*33).enc(b'a'*16))
tr('serpent key 0', lambda: Serpent(b'').enc(b'a'*16))
tr('serpent blk 17', lambda: Serpent(b'k').enc(b'a'*17))
tr('des blk 9', lambda: DES(b'k'*8).enc(b'a'*9))
tr('tdea 24', lambda: TDEA(b'abcdefgh'*3).enc(b'a'*8))
tr('tdea 3 args', lambda: TDEA(b'abcdefgh',b'12345678',b'ABCDEFGH').enc(b'a'*8))
tr('tdea 2 args', lambda: TDEA(b'abcdefgh',b'12345678').enc(b'a'*8)==TDEA(b'abcdefgh12345678').enc(b'a'*8))
tr('tdea 12', lambda: TDEA(b'abcdefgh1234').enc(b'a'*8))
tr('des known', lambda: DES(bytes.fromhex('133457799BBCDFF1')).enc(bytes.fromhex('0123456789ABCDEF')).hex())
# modes
e=ECB(AES(b'k'*16))
tr('ecb 1', lambda: len(e.enc(b'hello')))
tr('ecb 2', lambda: len(e.enc(b'hello')))
e=ECB(AES(b'k'*16))
tr('ecb dec', lambda: e.dec(e.enc(b'hello')))
c=CBC(AES(b'k'*16),b'i'*16)
tr('cbc dec', lambda: c.dec(c.enc(b'hello world, hello world')))
tr('cbc 2', lambda: c.enc(b'x'))
tr('cts_ecb', lambda: CTS_ECB(AES(b'k'*16)).enc(b'a'*20))
tr('cts_ecb 32', lambda: len(CTS_ECB(AES(b'k'*16)).enc(b'a'*32)))
tr('cts_ecb dec', lambda: CTS_ECB(AES(b'k'*16)).dec(b'a'*20))
tr('cts_cbc', lambda: CTS_CBC(AES(b'k'*16),b'i'*16).enc(b'a'*20))
tr('cts_cbc dec', lambda: CTS_CBC(AES(b'k'*16),b'i'*16).dec(b'a'*20))
ct=CTR(AES(b'k'*16))
tr('ctr enc', lambda: len(ct.enc(b'a'*20)))
tr('ctr dec', lambda: ct.dec(ct.enc(b'a'*20)))
tr('ctr dec 16', lambda: ct.dec(ct.enc(b'a'*16)))
tr('ctr enc empty', lambda: ct.enc(b''))
tr('ecb nopad empty', lambda: ECB(AES(b'k'*16),nopadding).enc(b''))
# hmac
for kl in (0,1,63,64,65,100):
    k=b'K'*kl
    tr('hmac sha256 k%d'%kl, lambda: HMAC(SHA2(256),k)(b'msg')==pyhmac.new(k,b'msg','sha256').digest())
# rc4 empty
tr('rc4 empty', lambda: RC4(b'k').enc(b''))
# skein
tr('skein bitlen=8n', lambda: Skein(256,256)(b'abc',bitlen=24)==Skein(256,256)(b'abc'))
tr('skein key empty', lambda: Skein(256,256,key=b'')(b'abc')==Skein(256,256)(b'abc'))
tr('skein tree empty', lambda: Skein(256,256,Yl=1,Yf=1,Ym=2)(b''))
# tlsh
tr('tlsh short', lambda: tlsh(b'short'))
tr('tlsh short force', lambda: TLSH(128)(b'a'*60,force=True))
# crc
d=b'hello world!!'
tr('crc32', lambda: crc32(d)==zlib.crc32(d))
tr('crc32_fix', lambda: (crc32(crc32_fix(d,0xdeadbeef))==0xdeadbeef, crc32_fix(d,0xdeadbeef)))
for pos in (0,1,5,len(d)-4):
    tr('crc32_fix_pos %d'%pos, lambda: (hex(crc32(crc32_fix_pos(d,pos,0xdeadbeef))), crc32_fix_pos(d,pos,0xdeadbeef)))
tr('crc32_fix 4', lambda: crc32(crc32_fix(b'abcd',0))==0)
tr('crc32_fix_pos 4', lambda: crc32(crc32_fix_pos(b'abcd',0,1))==1)
# utils
tr('combink', lambda: list(combink([1,2,3],2,0)))
tr('exactsum', lambda: (exactsum([('a',5),('b',3)],3), exactsum([('a',5),('b',3)],5),exactsum([('a',5),('b',3)],5)))
tr('dynprog', lambda: dynprog([('a',5),('b',3)],8))
tr('nextperm', lambda: nextperm([1,2,1]))
tr('permutk', lambda: list(permutk([1,2,3],0)))
