from crysp.keccak import *
from crysp.sha import *
from crysp.md import *
from crysp.padding import *
from crysp.salsa20 import Salsa20
from crysp.chacha import Chacha
from crysp.skein import *
from crysp.mode import *
from crysp.aes import AES
def tr(name,f):
    try:
        print(name,'->',f())
    except Exception as e:
        print(name,'!! %s: %s'%(type(e).__name__,e))
h=Keccak(r=1024,c=576,len=64)
tr('keccak r-1', lambda: h(b'\xff'*128,bitlen=1023).hex())
tr('keccak r-2', lambda: h(b'\xff'*128,bitlen=1022).hex())
tr('keccak r', lambda: h(b'\xff'*128,bitlen=1024).hex())
tr('keccak r none', lambda: h(b'\xff'*128).hex())
tr('keccak extra bytes', lambda: (h(b'\xa5\x01\x02',bitlen=5).hex(), h(b'\xa5',bitlen=5).hex()))
tr('keccak L=0 nonempty', lambda: (h(b'\xa5',bitlen=0).hex(), h(b'').hex()))
h2=Keccak(b=25,r=9,len=16)
tr('keccak25 r=9', lambda: h2(b'\xa5\x5a',bitlen=16).hex())
h2=Keccak(b=200,r=36,len=80)
tr('keccak200 r=36', lambda: h2(b'\xa5\x5a\x11\x22\x33\x44',bitlen=43).hex())
h2=Keccak(b=200,r=40,len=160)
h2.duplexing=True
tr('keccak200 dup', lambda: h2(b'\xa5\x5a\x11\x22\x33\x44',bitlen=43).hex())
d=Keccak(b=1600,r=1027,c=573)
tr('duplex', lambda: (d.duplex(b'\x01',bitlen=1,outlen=8).hex(), d.duplex(b'',outlen=16).hex()))
tr('keccak r kw', lambda: (Keccak(r=1024,c=576,len=64)(b'abc',r=512).hex(), Keccak(r=1024,c=576,len=64)(b'abc').hex()))
k=Keccak(r=1024,c=576,len=64)
tr('keccak r leak', lambda: (k(b'abc',r=512).hex(), k(b'abc').hex()))
# SHA streaming
s=SHA2(256)
def f():
    s.initstate(); s.update(b'a'*64); s.update(b'b'*128); return s.update(b'c'*5,padding=True)==SHA2(256)(b'a'*64+b'b'*128+b'c'*5)
tr('sha256 stream',f)
def f():
    s.initstate(); s.update(b'a'*64); return (s.padmethod.bitcnt, s.update(b'',padding=True)==SHA2(256)(b'a'*64))
tr('sha256 stream final empty',f)
from crysp.blake import *
def f():
    b=Blake(256); b.initstate(); b.update(b'a'*64); return (b.padmethod.bitcnt, b.update(b'c'*5,padding=True)==Blake(256)(b'a'*64+b'c'*5))
tr('blake stream',f)
def f():
    b=Blake2(256); b.initstate(); b.update(b'a'*64); return (b.padmethod.bitcnt, b.update(b'c'*5,padding=True)==Blake2(256)(b'a'*64+b'c'*5))
tr('blake2 stream',f)
# padding remove
for cls,args in ((MDpadding,(512,32)),(SHApadding,(512,32)),(Blakepadding,(256,))):
    p=cls(*args)
    tr('%s remove'%cls.__name__, lambda: p.remove(b''.join(p.iterblocks(b'hello'))))
p=X923(8)
tr('x923 B=8 zero', lambda: p.remove(b'\x00'))
p=pkcs7(64)
tr('pkcs7 bad', lambda: p.remove(b'A'*7+b'\x09'))
tr('pkcs7 bad2', lambda: p.remove(b'A'*6+b'\x01\x02'))
tr('pkcs7 zero', lambda: p.remove(b'A'*7+b'\x00'))
tr('x923 nonzero filler', lambda: X923(64).remove(b'A'*5+b'\x01\x00\x03'))
tr('nopadding partial', lambda: list(nopadding(32).iterblocks(b'abcde')))
tr('nopadding empty', lambda: list(nopadding(32).iterblocks(b'')))
tr('null empty', lambda: list(Nullpadding(32).iterblocks(b'')))
tr('bitpad bitlen mid', lambda: list(bitpadding(32).iterblocks(b'abcdefghij',bitlen=35)))
tr('pkcs7 bitlen', lambda: list(pkcs7(32).iterblocks(b'abcdefghij',bitlen=40)))
# salsa
K=Bits(bytes(range(32)),bitorder=1); v=Bits(bytes(range(8)),bitorder=1)
S=Salsa20(K)
c=S.enc(v,b'a'*70)
tr('salsa prefix', lambda: S.enc(v,b'a'*10)==c[:10])
tr('salsa empty', lambda: S.enc(v,b''))
tr('salsa dec', lambda: S.dec(v,c)==b'a'*70)
tr('salsa 128-bit K', lambda: len(Salsa20(Bits(bytes(range(16)),bitorder=1)).enc(v,b'a'*5)))
# skein
tr('skein No>Nb', lambda: len(Skein(256,512)(b'abc')))
tr('skein No=8', lambda: len(Skein(256,8)(b'abc')))
# MD6
tr('md6 bitlen', lambda: MD6(256)(b'abc',bitlen=20).hex())
tr('md6 L=0', lambda: MD6(256,L=0)(b'abc').hex())
tr('md6 L=1', lambda: MD6(256,L=1)(b'a'*600).hex())
tr('md6 big bitlen', lambda: MD6(256)(b'a'*600,bitlen=4799).hex())
tr('md6 d=1', lambda: MD6(1)(b'a').hex())
tr('md6 empty', lambda: MD6(256)(b'').hex())
tr('md6 key', lambda: MD6(256,Key=b'k'*65)(b'').hex())
# CTR wrap
ct=CTR(AES(b'k'*16),b'n'*8+b'\xff'*8)
tr('ctr wrap', lambda: ct.enc(b'a'*40).hex())
from crysp.threefish import Threefish
ct=CTR(Threefish(b'k'*128,b't'*16),b'n'*64+b'\x01'*64)
tr('ctr tf1024', lambda: ct.enc(b'a'*4).hex())
ct=CTR(Threefish(b'k'*128,b't'*16),b'n'*64+b'\x00'*63+b'\x01')
tr('ctr tf1024 b', lambda: ct.enc(b'a'*4).hex())
