import sys, collections
sys.path.insert(0,__import__('os').path.dirname(__import__('os').path.abspath(__file__)))
from ref_keccak import keccak
from crysp.keccak import Keccak
fails=collections.Counter(); ex={}
n=0
for b in (25,50,100,200):
    for r in range(1,b):
        if r>1536: continue
        for L in sorted(set(list(range(0,min(2*r+3,40)))+[r-2,r-1,r,r+1,2*r-1,2*r,2*r+1])):
            if L<0: continue
            for nist in (True,False):
                M=bytes(((i*37+11)&255) for i in range((L+7)//8))
                d=r+1
                h=Keccak(b=b,r=r,len=d); h.duplexing=not nist
                n+=1
                try: got=h(M,bitlen=L)
                except Exception as e: got='EXC '+type(e).__name__
                exp=keccak(b,r,M,L,d,nist)
                if got!=exp:
                    key=('r<8' if r<8 else 'r>=8', 'L%r==r-1' if L%r==r-1 else ('L==0' if L==0 else 'other'), 'rmod8=%d'%(r%8) if r>=8 else '', got if isinstance(got,str) else 'WRONG')
                    fails[key]+=1; ex.setdefault(key,(b,r,L,nist))
print(n,'cases')
for k,v in sorted(fails.items()): print(v,k,ex[k])
