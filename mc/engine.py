"""Bounded exhaustive exploration engine for crysp (see DESIGN.md section 1).

A *subcheck* enumerates a finite space of points completely (engines P and D) or
runs an explicit-state breadth-first search over call histories on real objects
(engine H).  Every point is one execution of real library code judged by an oracle.
Nothing is sampled; the enumeration order is fixed; VERIF_SEED is recorded only.
"""
import os, sys, json, time, hashlib, types, copy, traceback, collections, itertools
import multiprocessing as mp

sys.set_int_max_str_digits(0)      # observations may be very large ints (32 KiB vectors)
VERIF = os.path.dirname(os.path.dirname(os.path.abspath(__file__)))
TREE = os.environ.get('CRYSP_TREE', '/repo')
GUARD = 'BDCHT_CRYSP_VERIF'


def bind_tree():
    """make `import crysp` resolve to the tree under test and nothing else"""
    os.environ[GUARD] = '1'
    sys.dont_write_bytecode = True
    if sys.path[0] != TREE:
        sys.path.insert(0, TREE)
    for k in [k for k in sys.modules if k == 'crysp' or k.startswith('crysp.')]:
        del sys.modules[k]
    import crysp
    got = os.path.realpath(os.path.dirname(crysp.__file__))
    want = os.path.realpath(os.path.join(TREE, 'crysp'))
    if got != want:
        raise InternalError('crysp imported from %s, expected %s' % (got, want))


class InternalError(Exception):
    pass


# ---------------------------------------------------------------------------
# canonical forms

def jsonable(x):
    if isinstance(x, (bytes, bytearray)):
        return {'hex': bytes(x).hex()}
    if isinstance(x, (list, tuple)):
        return [jsonable(y) for y in x]
    if isinstance(x, dict):
        return {str(k): jsonable(v) for k, v in x.items()}
    if isinstance(x, (int, str, bool, float)) or x is None:
        if isinstance(x, int) and abs(x) >= 1 << 63:
            return {'int': hex(x)}
        return x
    return repr(x)


def unjson(x):
    if isinstance(x, dict):
        if set(x) == {'hex'}:
            return bytes.fromhex(x['hex'])
        if set(x) == {'int'}:
            return int(x['int'], 16)
        return {k: unjson(v) for k, v in x.items()}
    if isinstance(x, list):
        return tuple(unjson(y) for y in x)
    return x


def canon(o, seen=None):
    """generic canonical form of a live object graph (engine H state hashing)"""
    if seen is None:
        seen = {}
    if o is None or isinstance(o, (bool, int, float, str, bytes)):
        return o
    if isinstance(o, bytearray):
        return ('ba', bytes(o))
    tn = type(o).__name__
    if tn == 'Bits':
        return ('Bits', o.ival, o.size, o.mask)
    if isinstance(o, (list, tuple)):
        return tuple(canon(x, seen) for x in o)
    if isinstance(o, (set, frozenset)):
        return ('set',) + tuple(sorted(repr(canon(x, seen)) for x in o))
    if isinstance(o, dict):
        return tuple(sorted((repr(k), canon(v, seen)) for k, v in o.items()))
    if isinstance(o, (types.FunctionType, types.BuiltinFunctionType, type)):
        return ('fn', getattr(o, '__module__', ''), getattr(o, '__qualname__', ''))
    if isinstance(o, types.MethodType):
        return ('meth', getattr(o, '__qualname__', ''), canon(o.__self__, seen))
    if isinstance(o, types.GeneratorType):
        return ('gen', o.gi_frame.f_lasti if o.gi_frame else -1)
    if isinstance(o, (range,)):
        return ('range', o.start, o.stop, o.step)
    if id(o) in seen:
        return ('ref', seen[id(o)])
    seen[id(o)] = len(seen)
    items = []
    if hasattr(o, '__dict__'):
        items += [(k, canon(v, seen)) for k, v in vars(o).items()]
    for cls in type(o).__mro__:
        for s in getattr(cls, '__slots__', ()):
            if isinstance(s, str):
                n = s if not s.startswith('__') else '_%s%s' % (cls.__name__.lstrip('_'), s)
                if hasattr(o, n):
                    items.append((n, canon(getattr(o, n), seen)))
    if not items and not hasattr(o, '__dict__'):
        return (tn, repr(o))
    return (tn,) + tuple(sorted(items, key=lambda kv: kv[0]))


def h8(x):
    return hashlib.blake2b(repr(x).encode(), digest_size=8).digest()


def library_globals():
    """snapshot of every module-level / class-level mutable the library owns"""
    import importlib
    snap = {}
    mods = ['aes', 'bits', 'blake', 'chacha', 'crc', 'des', 'hmac', 'keccak', 'md', 'mode',
            'nilsimsa', 'padding', 'poly', 'rc4', 'salsa20', 'serpent', 'sha', 'skein',
            'threefish', 'tlsh', 'wb', 'utils.knapsack', 'utils.perms', 'utils.operators']
    for m in mods:
        try:
            mod = importlib.import_module('crysp.' + m)
        except Exception as e:
            snap[m] = ('import-error', type(e).__name__)
            continue
        for k, v in vars(mod).items():
            if k.startswith('__'):
                continue
            if isinstance(v, types.ModuleType):
                continue
            if getattr(v, '__module__', mod.__name__) != mod.__name__ and isinstance(v, (type, types.FunctionType)):
                continue
            if isinstance(v, type):
                cv = []
                for ck, cvv in vars(v).items():
                    if ck.startswith('__') or isinstance(cvv, (types.FunctionType, property, staticmethod, classmethod, types.MemberDescriptorType, types.GetSetDescriptorType)):
                        continue
                    cv.append((ck, canon(cvv)))
                snap[m + '.' + k] = tuple(cv)
                for ck, cvv in vars(v).items():
                    if isinstance(cvv, types.FunctionType) and cvv.__defaults__:
                        snap[m + '.' + k + '.' + ck + '.defaults'] = canon(cvv.__defaults__)
            elif isinstance(v, types.FunctionType):
                if v.__defaults__:
                    snap[m + '.' + k + '.defaults'] = canon(v.__defaults__)
                if v.__dict__:
                    snap[m + '.' + k + '.dict'] = canon(v.__dict__)
            else:
                snap[m + '.' + k] = canon(v)
    return snap


def diff_globals(a, b):
    return sorted(k for k in set(a) | set(b) if a.get(k) != b.get(k))


# ---------------------------------------------------------------------------
# context handed to every point execution

MAXFAIL_PER_CLASS = 3


class Ctx(object):
    def __init__(self, prop, sub):
        self.prop = prop
        self.sub = sub
        self.calls = 0          # real library calls performed (transitions)
        self.cmps = 0           # oracle comparisons (model predictions replayed on the implementation)
        self.obs = set()        # distinct observations (8-byte hashes)
        self.states = set()     # distinct canonical states (engine H)
        self.shapes = set()     # distinct shape classes
        self.fails = []         # failures of the current point
        self.point = None
        self.point_override = None
        self.extra = collections.Counter()
        self.samples = []       # a few explored histories / cases written out for the evidence file

    # -- real calls
    def call(self, f, *a, **k):
        self.calls += 1
        return f(*a, **k)

    def attempt(self, f, *a, **k):
        """run a real call; returns ('ok', value) or ('exc', exception class name)"""
        self.calls += 1
        try:
            return ('ok', f(*a, **k))
        except Exception as e:
            return ('exc', type(e).__name__)

    # -- oracle
    def eq(self, class_key, observed, expected, note=None):
        self.cmps += 1
        self.obs.add(h8(observed))
        if observed != expected:
            self.fail(class_key, expected, observed, note)
            return False
        return True

    def ok(self, class_key, cond, observed=None, expected='condition holds', note=None):
        self.cmps += 1
        if observed is not None:
            self.obs.add(h8(observed))
        if not cond:
            self.fail(class_key, expected, observed, note)
            return False
        return True

    def raises(self, class_key, f, *a, **k):
        """the call must raise (any Exception); returning a value is a failure"""
        r = self.attempt(f, *a, **k)
        self.cmps += 1
        self.obs.add(h8(r[0] == 'exc' and r or ('ok',)))
        if r[0] != 'exc':
            self.fail(class_key, 'an exception', ('returned', short(r[1])))
            return False
        return True

    def fail(self, class_key, expected, observed, note=None):
        f = {'class_key': class_key, 'expected': short(expected),
             'observed': short(observed), 'note': note}
        if self.point_override is not None:
            f['point'] = jsonable(self.point_override)
        self.fails.append(f)

    def shape(self, key):
        self.shapes.add(h8(key))

    def state(self, c):
        hh = h8(c)
        new = hh not in self.states
        self.states.add(hh)
        return new


def short(x, n=400):
    if isinstance(x, (bytes, bytearray)):
        x = bytes(x).hex()
    s = x if isinstance(x, str) else repr(x)
    return s if len(s) <= n else s[:n] + '...(%d chars)' % len(s)


class Sub(object):
    """one subcheck: a finite space `points(tier)` and `run(ctx, point)`"""

    def __init__(self, name, points, run, engine='P', bound='', exhaustive=True, serial=False, chunk=None):
        self.name = name
        self.points = points
        self.run = run
        self.engine = engine
        self.bound = bound
        self.exhaustive = exhaustive
        self.serial = serial
        self.chunk = chunk


# ---------------------------------------------------------------------------
# running

_SUBS = None


class PointTimeout(BaseException):
    """not an Exception: the harness code that records library exceptions must not swallow it"""


def _alarm(signum, frame):
    raise PointTimeout('one point used more than %d s of CPU time (or %d s of wall time)' % (POINT_TIMEOUT, WALL_BACKSTOP))


# The watchdog counts the CPU time of the worker (ITIMER_PROF), not wall time: a loaded machine must not turn a slow
# point into an alarm.  The wall-clock backstop only exists for a worker that blocks without computing.
POINT_TIMEOUT = int(os.environ.get('VERIF_POINT_TIMEOUT', '1500'))
WALL_BACKSTOP = int(os.environ.get('VERIF_WALL_BACKSTOP', str(24 * POINT_TIMEOUT)))


def arm():
    import signal
    signal.signal(signal.SIGPROF, _alarm)
    signal.signal(signal.SIGALRM, _alarm)
    signal.setitimer(signal.ITIMER_PROF, POINT_TIMEOUT)
    signal.alarm(WALL_BACKSTOP)


def disarm():
    import signal
    signal.setitimer(signal.ITIMER_PROF, 0)
    signal.alarm(0)


def _work(args):
    import signal
    si, chunk = args
    sub = _SUBS[si]
    ctx = Ctx(_PROP, sub.name)
    fails = []
    n = 0
    for pt in chunk:
        ctx.point = pt
        ctx.fails = []
        n += 1
        c0 = time.process_time()
        try:
            arm()      # a change that makes the library loop forever is reported, not waited for
            try:
                sub.run(ctx, pt)
            finally:
                disarm()
                ctx.extra['max_point_cpu_s'] = max(ctx.extra['max_point_cpu_s'], int(time.process_time() - c0 + 0.999))
        except PointTimeout as e:
            ctx.fail('%s/%s/point-timeout' % (_PROP, sub.name), 'the point completes', str(e))
        except Exception as e:
            tb = traceback.format_exc(limit=6)
            ctx.fail('%s/%s/harness-exception/%s' % (_PROP, sub.name, type(e).__name__),
                     'no exception escaping the harness', tb)
        for f in ctx.fails:
            f.setdefault('point', jsonable(pt))
            f['subcheck'] = sub.name
            fails.append(f)
    # cap what is shipped back, keeping every class
    byc = collections.OrderedDict()
    cnt = collections.Counter()
    for f in fails:
        cnt[f['class_key']] += 1
        if len(byc.setdefault(f['class_key'], [])) < MAXFAIL_PER_CLASS:
            byc[f['class_key']].append(f)
    return (si, n, ctx.calls, ctx.cmps, ctx.obs, ctx.states, ctx.shapes,
            [f for fs in byc.values() for f in fs], dict(cnt), dict(ctx.extra), jsonable(ctx.samples[:2] + ctx.samples[-1:]))


_PROP = None


def run_property(prop, subs, tier, workers=None, only=None):
    """run all subchecks of a property; returns (evidence coverage dict, failures by class)"""
    global _SUBS, _PROP
    _SUBS, _PROP = subs, prop
    workers = workers or int(os.environ.get('VERIF_WORKERS', '0')) or min(16, os.cpu_count() or 1)
    t0 = time.time()
    tasks = []
    per = []
    for si, sub in enumerate(subs):
        if only and sub.name not in only:
            per.append(None)
            continue
        pts = list(sub.points(tier))
        per.append({'name': sub.name, 'engine': sub.engine, 'bound': sub.bound,
                    'exhaustive': bool(sub.exhaustive), 'points': len(pts), 'calls': 0, 'comparisons': 0,
                    'distinct_observations': 0, 'states': 0, 'shape_classes': 0,
                    'first_point': jsonable(pts[0]) if pts else None,
                    'last_point': jsonable(pts[-1]) if pts else None})
        if not pts:
            continue
        ck = sub.chunk or max(1, min(2000, len(pts) // (workers * 8) + 1))
        # interleave so that expensive neighbouring points are spread over workers
        for c0 in range(0, len(pts), ck):
            tasks.append((si, pts[c0:c0 + ck]))
    agg = [dict(obs=set(), states=set(), shapes=set()) for _ in subs]
    fails = collections.OrderedDict()
    counts = collections.Counter()
    results = []
    if not os.environ.get('VERIF_SERIAL') and len(tasks) > 0:
        ctxm = mp.get_context('fork')
        with ctxm.Pool(workers, maxtasksperchild=1) as pool:   # every chunk starts from the import-time state of the library
            for r in pool.imap_unordered(_work, tasks, chunksize=1):
                results.append(r)
    else:
        for t in tasks:
            results.append(_work(t))
    results.sort(key=lambda r: (r[0], repr(r[7][:1])))
    for (si, n, calls, cmps, obs, states, shapes, fl, cnt, extra, smp) in results:
        p = per[si]
        p['calls'] += calls
        p['comparisons'] += cmps
        agg[si]['obs'] |= obs
        agg[si]['states'] |= states
        agg[si]['shapes'] |= shapes
        if smp and len(p.setdefault('sample_histories', [])) < 4:
            p['sample_histories'] += smp[:1] + smp[-1:]
        for k, v in extra.items():
            p.setdefault('extra', {})
            p['extra'][k] = max(p['extra'].get(k, 0), v) if k.startswith('max_') else p['extra'].get(k, 0) + v
        for f in fl:
            if len(fails.setdefault(f['class_key'], [])) < MAXFAIL_PER_CLASS:
                fails[f['class_key']].append(f)
        for k, v in cnt.items():
            counts[k] += v
    allobs = set()
    for si, p in enumerate(per):
        if p is None:
            continue
        p['distinct_observations'] = len(agg[si]['obs'])
        p['states'] = len(agg[si]['states'])
        p['shape_classes'] = len(agg[si]['shapes'])
        allobs |= agg[si]['obs']
    per = [p for p in per if p is not None]
    cov = {
        'evaluations': sum(p['points'] for p in per),
        'distinct_nontrivial': len(allobs),
        'states': sum(max(p['states'], p['points']) if p['engine'] == 'H' else p['points'] for p in per),
        'transitions': sum(p['calls'] for p in per),
        'traces_validated_against_impl': sum(p['comparisons'] for p in per),
        'exhaustive': all(p['exhaustive'] for p in per),
        'subchecks': per,
        'workers': workers,
    }
    return cov, fails, counts, time.time() - t0


# ---------------------------------------------------------------------------
# engine H: explicit-state breadth-first search over call histories on real objects

class HSystem(object):
    """A closed system for engine H.  Subclasses (or duck-typed objects) provide
       fresh() -> live object(s); events(obj) -> list of JSON-able event descriptors;
       apply(obj, ev) -> observation (may raise); canon(obj) -> canonical state;
       judge(ctx, hist, ev, res, obj) -> oracle for one transition, res = ('ok',v)|('exc',name)."""
    def canon(self, o):
        return canon(o)


def _rebuild(ctx, sysm, hist):
    o = sysm.fresh()
    for ev in hist:
        ctx.calls += 1
        try:
            sysm.apply(o, ev)
        except Exception:
            pass
    return o


def bfs(ctx, key, sysm, depth, part=(0, 1), tier=None):
    """Breadth-first search to `depth` (or to the fixpoint if reached earlier).  A state
    is rebuilt by replaying the history that first reached it on a fresh object, so
    every explored path is a real execution.  Successors are deduplicated by
    sysm.canon.  Returns (states, transitions, fixpoint).  part=(j, J) explores only the root events whose index is
    j modulo J (the J parts together are the whole tree; states are deduplicated within a part only)."""
    root = sysm.fresh()
    c0 = sysm.canon(root)
    seen = {h8(c0)}
    ctx.state((key, c0))
    frontier = [()]
    trans = 0
    for d in range(depth):
        nxt = []
        for hist in frontier:
            evs = sysm.events(_rebuild(ctx, sysm, hist))
            if d == 0:
                evs = [ev for i, ev in enumerate(evs) if i % part[1] == part[0]]
            for ev in evs:
                o = _rebuild(ctx, sysm, hist)
                ctx.calls += 1
                try:
                    r = ('ok', sysm.apply(o, ev))
                except Exception as e:
                    r = ('exc', type(e).__name__)
                trans += 1
                if len(ctx.samples) < 2 or d == depth - 1 or True:
                    ctx.samples = (ctx.samples[:2] + [{'system': key, 'history': list(hist + (ev,)), 'result': short(r, 80)}])[:3] if len(ctx.samples) >= 2 else ctx.samples + [{'system': key, 'history': list(hist + (ev,)), 'result': short(r, 80)}]
                ctx.point_override = ('hist', key, hist + (ev,)) + ((tier,) if tier else ())
                sysm.judge(ctx, hist, ev, r, o)
                ctx.point_override = None
                c = sysm.canon(o)
                hh = h8(c)
                if hh not in seen:
                    seen.add(hh)
                    ctx.state((key, c))
                    nxt.append(hist + (ev,))
        frontier = nxt
        if not frontier:
            ctx.extra['fixpoints'] += 1
            return len(seen), trans, True
    ctx.extra['depth_bounded'] += 1
    return len(seen), trans, False


def replay_hist(ctx, sysm, hist):
    """re-execute one history without any explorer, judging every transition"""
    o = sysm.fresh()
    done = ()
    for ev in hist:
        ctx.calls += 1
        try:
            r = ('ok', sysm.apply(o, ev))
        except Exception as e:
            r = ('exc', type(e).__name__)
        sysm.judge(ctx, done, ev, r, o)
        done = done + (ev,)
    return o


def pristine(f):
    """run f() in a forked child, so that nothing it does to module-level state survives, and - when called before this
    process has used the library - so that it starts from the import-time state"""
    import os, pickle
    r, w = os.pipe()
    pid = os.fork()
    if pid == 0:
        try:
            os.close(r)
            arm()              # interval timers are not inherited over fork: the child gets its own watchdog
            out = pickle.dumps(f())
        except BaseException as e:      # noqa
            out = pickle.dumps(('exc', 'harness:' + type(e).__name__))
        os.write(w, out)
        os._exit(0)
    os.close(w)
    buf = b''
    while True:
        c = os.read(r, 1 << 16)
        if not c:
            break
        buf += c
    os.close(r)
    os.waitpid(pid, 0)
    return pickle.loads(buf)


def hsub(name, systems, depth, bound='', split=1):
    """Sub for a family of H systems: `systems(tier)` -> dict key -> HSystem,
    `depth(tier)` -> int.  One point per system and part (each BFS runs in one worker); `split` (int or tier -> int,
    or a dict attribute `split` of the system) cuts the tree of one system into that many parts by its root events."""
    def nsplit(sysm, tier):
        J = split(tier) if callable(split) else split
        if isinstance(getattr(sysm, 'split', None), dict):
            J = sysm.split.get(tier, J)
        return max(1, J)

    def points(tier):
        out = []
        for k, sysm in systems(tier).items():
            J = nsplit(sysm, tier)
            out += [(k, tier, j, J) for j in range(J)]
        return out

    def run(ctx, pt):
        if pt[0] == 'hist':
            key, hist = pt[1], pt[2]
            sysm = systems(pt[3])[key] if len(pt) > 3 else (systems('thorough').get(key) or systems('quick')[key])
            replay_hist(ctx, sysm, hist)
            return
        key, tier, j, J = pt
        sysm = systems(tier)[key]
        d = depth(tier) if callable(depth) else depth
        d = getattr(sysm, 'depth', {}).get(tier, d) if isinstance(getattr(sysm, 'depth', None), dict) else d
        st, tr, fix = bfs(ctx, key, sysm, d, (j, J), tier)
        ctx.extra['h_states'] += st
        ctx.extra['h_transitions'] += tr
    return Sub(name, points, run, engine='H', bound=bound, chunk=1)
