"""C05 - ECB/CBC/CTR/CTS follow SP 800-38A over the configured padding and decrypt what they encrypt.
Oracle: SP 800-38A written generically over the same block function E = cipher.enc, applied to
the padding specification of C09."""
from mc.engine import Sub, HSystem, hsub
from mc.common import ramp, expander, xor
from mc.checks import cipherfam as F
from mc.refs import padspec as PS


class Stub(object):
    """keyed, position-dependent byte-wise bijection on blocks of `blocksize` bits; refuses other sizes"""

    def __init__(self, blocksize, key=0x5b):
        self.blocksize = blocksize
        self.size = blocksize
        self.n = blocksize // 8
        self.key = key
        self.calls = 0

    def enc(self, b):
        b = bytes(b)
        if len(b) != self.n:
            raise ValueError('stub cipher: block of %d bytes, expected %d' % (len(b), self.n))
        self.calls += 1
        acc = self.key
        out = bytearray(self.n)
        for i in range(self.n):          # byte i depends on all bytes 0..i (diffusion to the right)
            acc = (acc * 5 + b[i] + i + 1) & 255
            out[i] = acc ^ 0xa7
        return bytes(out)

    def dec(self, c):
        c = bytes(c)
        if len(c) != self.n:
            raise ValueError('stub cipher: block of %d bytes, expected %d' % (len(c), self.n))
        acc = self.key
        out = bytearray(self.n)
        for i in range(self.n):
            nacc = c[i] ^ 0xa7
            out[i] = (nacc - acc * 5 - i - 1) & 255
            acc = nacc
        return bytes(out)


class FailingStub(Stub):
    """a cipher object that fails transiently: while armed, its k-th block operation raises (a user-supplied cipher is free
    to do that); the mode object must be as good as new for the next request"""

    def __init__(self, blocksize):
        Stub.__init__(self, blocksize)
        self.left = None

    def arm(self, k):
        self.left = k

    def disarm(self):
        self.left = None

    def _tick(self):
        if self.left is not None:
            self.left -= 1
            if self.left <= 0:
                self.left = None
                raise RuntimeError('transient failure of the block cipher')

    def enc(self, b):
        self._tick()
        return Stub.enc(self, b)

    def dec(self, c):
        self._tick()
        return Stub.dec(self, c)


REAL = {'aes128': 16, 'aes192': 24, 'aes256': 32, 'des': 8, 'tdea': 24, 'serpent': 32, 'tf256': 32, 'tf512': 64, 'tf1024': 128}


def cipher(cid):
    if cid.startswith('failing'):
        return FailingStub(int(cid[7:]))
    if cid.startswith('stub'):
        return Stub(int(cid[4:]))
    return F.make(cid, ramp(REAL[cid], 9, 2), ramp(16, 3, 1))


def blen(cid):
    if cid.startswith('failing'):
        return int(cid[7:]) // 8
    return int(cid[4:]) // 8 if cid.startswith('stub') else F.BLOCKLEN[cid]


PADS = ['pkcs7', 'x923', 'iso7816', 'zero', 'none']


def padclass(name):
    from crysp import padding as P
    return {'pkcs7': P.pkcs7, 'x923': P.X923, 'iso7816': P.bitpadding, 'zero': P.Nullpadding, 'none': P.nopadding}[name]


def iv_of(kind, n):
    return {'zero': b'\0' * n, 'ramp': ramp(n, 17, 200), 'ff': b'\xff' * n}[kind]


def msg(n, d, blocklen=None):
    if d == 2:
        # a message whose tail collides with its own padding: the last bytes equal the pad length / the pad marker
        q = blocklen - n % blocklen
        m = bytearray(expander(n, 5))
        for i in range(1, min(n, 3) + 1):
            m[-i] = q & 255
        return bytes(m)
    return ramp(n, 31, 5) if d == 0 else expander(n, 4)


def lengths(cid, tier):
    n = blen(cid)
    if cid.startswith('stub'):
        base = list(range(0, 4 * n + 2)) if (n <= 32 or tier == 'thorough') else \
            sorted({k * n + r for k in range(0, 5) for r in (0, 1, 2, n // 2, n - 2, n - 1)} | set(range(0, 40)))
        # many blocks: past 255/256/257 blocks for the small block sizes (one-byte counters and length bytes), 9 and 17 otherwise
        many = (9, 17, 255, 256, 257, 300) if n <= 2 else ((9, 17, 257) if n <= 8 else (9, 17))
        return sorted(set(base) | {k * n + r for k in many for r in (0, 1, n - 1)})
    out = set(range(0, n + 2))
    for k in (1, 2, 3, 5, 9):
        out |= {k * n, k * n + 1, k * n + n - 1}
    return sorted(out)


# ---- ECB / CBC ------------------------------------------------------------------------

def stubs(tier):
    return ['stub%d' % b for b in (8, 16, 24, 64, 128, 256, 512, 1024)]


def pts_ecbcbc(tier):
    pts = []
    for cid in stubs(tier) + list(REAL):
        for mode in ('ECB', 'CBC'):
            for pad in PADS:
                if cid in REAL and tier == 'quick' and pad in ('x923', 'zero') and cid not in ('aes128', 'des'):
                    continue
                pts.append((cid, mode, pad, tier))
    return pts


def sp800_ecb(E, data, n):
    return b''.join(E(data[i:i + n]) for i in range(0, len(data), n))


def sp800_cbc(E, iv, data, n):
    out = [iv]
    for i in range(0, len(data), n):
        out.append(E(xor(data[i:i + n], out[-1])))
    return b''.join(out)


def run_ecbcbc(ctx, pt):
    from crysp import mode as Mo
    cid, mode, pad, tier = pt
    n = blen(cid)
    K = 'C05/%s/%s' % (mode, pad)
    c = cipher(cid)
    for L in lengths(cid, tier):
        if pad == 'none' and (L == 0 or L % n):
            continue
        if pad == 'zero' and L == 0:
            continue
        for d in (0, 1, 2) if cid.startswith('stub') else (0, 2):
            M = msg(L, d, n)
            padded = PS.pad_spec(pad, 8 * n, M)[0]
            ivs = ('zero', 'ramp') if mode == 'CBC' else (None,)
            for ivk in ivs:
                ctx.shape((cid[:4], mode, pad, L % n == 0, L // n))
                if mode == 'ECB':
                    mk = lambda: Mo.ECB(c, pad=padclass(pad))
                    exp = sp800_ecb(c.enc, padded, n)
                else:
                    iv = iv_of(ivk, n)
                    mk = lambda: Mo.CBC(c, iv, pad=padclass(pad))
                    exp = sp800_cbc(c.enc, iv, padded, n)
                r = ctx.attempt(lambda: mk().enc(M))
                ctx.eq(K + '/enc', r, ('ok', exp))
                if pad != 'zero' and r[0] == 'ok':
                    ctx.eq(K + '/dec-of-enc', ctx.attempt(lambda: mk().dec(r[1])), ('ok', M))
                    # decryption of the specified ciphertext, independently of what enc produced
                if pad != 'zero':
                    ctx.eq(K + '/dec', ctx.attempt(lambda: mk().dec(exp)), ('ok', M))


# ---- CBC messages crafted so that ciphertext blocks collide ------------------------------

def pts_cbc_crafted(tier):
    return [(cid, mode) for cid in ['stub64', 'stub128'] + list(REAL) for mode in ('CBC', 'CTS_CBC')]


def run_cbc_crafted(ctx, pt):
    """messages chosen (with the block cipher's own dec) so that a ciphertext block equals the IV, equals the
    previous ciphertext block, or is all zero: value classes no pattern sweep reaches"""
    from crysp import mode as Mo
    from crysp.padding import nopadding, pkcs7
    cid, mode = pt
    n = blen(cid)
    c = cipher(cid)
    for ivk in ('ramp', 'zero'):
        iv = iv_of(ivk, n)
        rnd = [expander(n, 20 + j) for j in range(4)]
        for where in (0, 1, 2):
            for target in ('iv', 'prev', 'zero'):
                # build blocks M_0..M_3; block `where` is forced so that C_where == target value
                M = []
                prev = iv
                for j in range(4):
                    if j == where:
                        want = {'iv': iv, 'prev': prev, 'zero': bytes(n)}[target]
                        m = xor(c.dec(want), prev)
                    else:
                        m = rnd[j]
                    M.append(m)
                    prev = c.enc(xor(m, prev))
                for tail in ((0,) if mode == 'CBC' else (0, 1, n - 1)):
                    msg_ = b''.join(M) + expander(tail, 30)
                    if mode == 'CBC':
                        for padc, padn in ((pkcs7, 'pkcs7'), (nopadding, 'none')):
                            mk = lambda: Mo.CBC(c, iv, pad=padc)
                            exp = sp800_cbc(c.enc, iv, PS.pad_spec(padn, 8 * n, msg_)[0], n)
                            r = ctx.attempt(lambda: mk().enc(msg_))
                            ctx.eq('C05/CBC/%s/enc' % padn, r, ('ok', exp))
                            ctx.eq('C05/CBC/%s/dec/colliding-ciphertext-blocks' % padn, ctx.attempt(lambda: mk().dec(exp)), ('ok', msg_))
                    else:
                        mk = lambda: Mo.CTS_CBC(c, iv)
                        r = ctx.attempt(lambda: mk().enc(msg_))
                        if r[0] == 'ok':
                            ctx.eq('C05/CTS_CBC/dec-of-enc/colliding-ciphertext-blocks', ctx.attempt(lambda: mk().dec(r[1])), ('ok', msg_))
                        else:
                            ctx.eq('C05/CTS_CBC/enc-length', r, 'ok')


# ---- CTR with a counter object that is set up again between calls (engine H) ------------------

class CtrSys(HSystem):
    def __init__(self, cid):
        self.cid = cid
        self.n = blen(cid)
        h = self.n // 2
        self.cfgs = {'A': (iv_of('ramp', self.n - h), (5).to_bytes(h, 'big')), 'B': (iv_of('zero', self.n - h), ((1 << (8 * h)) - 2).to_bytes(h, 'big')),
                     'C': (iv_of('ff', self.n - h), (1 << (8 * h - 1)).to_bytes(h, 'big'))}

    def fresh(self):
        from crysp import mode as Mo
        c = cipher(self.cid)
        nonce, cnt = self.cfgs['A']
        ctr = Mo.DefaultCounter(self.n).setup(nonce, cnt)
        return {'o': Mo.CTR(c, ctr), 'cfg': 'A', 'c': c, 'exp': None}

    def canon(self, o):
        from mc.engine import canon
        return (o['cfg'], canon(o['o'].counter), canon(o['o'].pad))

    def events(self, o):
        return [('setup', k) for k in ('A', 'B', 'C')] + [('setup-default',), ('setup-nonce-only',)] + [('enc', 0), ('enc', 1), ('enc', 2 * self.n + 1), ('dec', self.n + 3)]

    def apply(self, o, ev):
        if ev[0] == 'setup':
            o['cfg'] = ev[1]
            o['o'].counter.setup(*self.cfgs[ev[1]])
            o['exp'] = None
            return None
        if ev[0] in ('setup-default', 'setup-nonce-only'):
            # setup() without arguments / with a nonce only: the documented defaults are all-zero halves
            h = self.n // 2
            z = bytes(self.n - h), bytes(h)
            if ev[0] == 'setup-default':
                o['o'].counter.setup()
                self.cfgs['Z'] = z
                o['cfg'] = 'Z'
            else:
                o['o'].counter.setup(nonce=iv_of('ramp', self.n - h))
                self.cfgs['N'] = (iv_of('ramp', self.n - h), bytes(h))
                o['cfg'] = 'N'
            o['exp'] = None
            return None
        L = ev[1]
        M = msg(L, 1)
        nonce, cnt = self.cfgs[o['cfg']]
        h = len(cnt)
        c0 = int.from_bytes(cnt, 'big')
        ks = b''.join(o['c'].enc(nonce + ((c0 + j) % (1 << (8 * h))).to_bytes(h, 'big')) for j in range((L + self.n - 1) // self.n))
        o['exp'] = xor(M, ks)
        return o['o'].enc(M) if ev[0] == 'enc' else o['o'].dec(M)

    def judge(self, ctx, hist, ev, res, o):
        if ev[0].startswith('setup'):
            ctx.eq('C05/CTR/counter-setup', res[0], 'ok')
        else:
            ctx.eq('C05/CTR/%s-after-counter-setup-history' % ev[0], res, ('ok', o['exp']))


class ModeSys(HSystem):
    """one ECB / CBC object (or two CTR objects built on one DefaultCounter): every call must equal the stateless
    SP 800-38A model, whatever was encrypted or decrypted through the object before - in particular the same block value
    seen first in one direction and then in the other"""

    def __init__(self, cid, mode):
        self.cid, self.mode, self.n = cid, mode, blen(cid)
        n = self.n
        self.X = [msg(2 * n, 0), msg(2 * n, 1), msg(n, 1)]

    def fresh(self):
        from crysp import mode as Mo
        from crysp.padding import nopadding
        c = cipher(self.cid)
        iv = iv_of('ramp', self.n)
        if self.mode == 'ECB':
            return {'c': c, 'o': Mo.ECB(c, pad=nopadding), 'iv': iv}
        if self.mode == 'CBC':
            return {'c': c, 'o': Mo.CBC(c, iv, pad=nopadding), 'iv': iv}
        ctr = Mo.DefaultCounter(self.n).setup(iv[:self.n - self.n // 2], (7).to_bytes(self.n // 2, 'big'))
        return {'c': c, 'o': Mo.CTR(c, ctr), 'o2': Mo.CTR(c, ctr), 'iv': iv}

    def canon(self, o):
        from mc.engine import canon
        return (canon(o['o']), canon(o.get('o2')), o['iv'])

    def events(self, o):
        ev = [('enc', i) for i in range(3)] + [('dec', i) for i in range(3)] + [('dec-of-own-enc', 0), ('enc-of-own-enc', 1)]
        if self.mode == 'CTR':
            ev += [('enc2', 0), ('dec2', 2), ('enc2', 2)]
        if self.mode == 'CBC':
            ev += [('set-iv', 0), ('set-iv', 1)]
        if self.cid.startswith('failing'):
            ev += [('failing-enc', 1), ('failing-enc', 2), ('failing-dec', 1), ('failing-dec', 2)]
        return ev

    def model(self, o, direction, data):
        n, c = self.n, o['c']
        if self.mode == 'ECB':
            f = c.enc if direction == 'enc' else c.dec
            return b''.join(f(data[i:i + n]) for i in range(0, len(data), n))
        if self.mode == 'CBC':
            if direction == 'enc':
                return sp800_cbc(c.enc, o['iv'], data, n)
            blocks = [data[i:i + n] for i in range(0, len(data), n)]
            return b''.join(xor(c.dec(blocks[i]), blocks[i - 1]) for i in range(1, len(blocks)))
        h = n // 2
        ks = b''.join(c.enc(o['iv'][:n - h] + (7 + j).to_bytes(h, 'big')) for j in range((len(data) + n - 1) // n))
        return xor(data, ks)

    def apply(self, o, ev):
        t, i = ev
        obj = o['o2'] if t.endswith('2') else o['o']
        if t == 'set-iv':
            # the IV is a public attribute: assigning it reconfigures the object for every later request
            o['iv'] = [iv_of('zero', self.n), iv_of('ff', self.n)][i]
            o['o'].IV = o['iv']
            o['exp'] = None
            return None
        if t.startswith('failing'):
            o['exp'] = 'raises'
            o['c'].arm(i)
            try:
                return getattr(obj, t[8:])(msg(3 * self.n, 0))      # at least two block operations in every mode and direction
            finally:
                o['c'].disarm()
        if t == 'dec-of-own-enc':
            data = self.model(o, 'enc', self.X[i])
            o['exp'] = self.model(o, 'dec', data)
            return obj.dec(data)
        if t == 'enc-of-own-enc':
            data = self.model(o, 'enc', self.X[i])[-2 * self.n:]
            o['exp'] = self.model(o, 'enc', data)
            return obj.enc(data)
        d = 'enc' if t.startswith('enc') else 'dec'
        o['exp'] = self.model(o, d, self.X[i])
        return getattr(obj, d)(self.X[i])

    def judge(self, ctx, hist, ev, res, o):
        if ev[0] == 'set-iv':
            return
        if o['exp'] == 'raises':
            ctx.eq('C05/%s/object-history/failure-of-the-block-cipher-swallowed' % self.mode, res, ('exc', 'RuntimeError'))
            return
        ctx.eq('C05/%s/object-history/%s' % (self.mode, ev[0]), res, ('ok', o['exp']))


def mode_systems(tier):
    cids = ['stub64', 'failing64', 'aes128'] + (['des', 'tf256'] if tier == 'thorough' else [])
    return {'%s-%s' % (m, cid): ModeSys(cid, m) for cid in cids for m in ('ECB', 'CBC', 'CTR')}


def ctr_systems(tier):
    return {cid: CtrSys(cid) for cid in (['stub16', 'stub128', 'aes128', 'des'] + (['tf512', 'serpent'] if tier == 'thorough' else []))}


# ---- CTR -----------------------------------------------------------------------------

def pts_ctr(tier):
    pts = []
    for cid in ['stub%d' % b for b in (16, 64, 128, 256, 512, 1024)] + list(REAL):
        for form in ('bytes', 'object'):
            pts.append((cid, form, tier))
    return pts


def counter_halves(h):
    top = (1 << (8 * h)) - 1
    distinct = int.from_bytes(bytes(range(1, h + 1)), 'big')
    return [0, 1, top - 1, top, distinct]


def run_ctr(ctx, pt):
    from crysp import mode as Mo
    cid, form, tier = pt
    n = blen(cid)
    h = n // 2
    c = cipher(cid)
    K = 'C05/CTR'
    Ls = lengths(cid, tier)
    if not cid.startswith('stub') or n > 32:
        Ls = [L for L in Ls if L <= 3 * n + 1]
    for nk in ('zero', 'ramp'):
        nonce = iv_of(nk, n - h)
        for c0 in counter_halves(h):
            cb = c0.to_bytes(h, 'big')
            lens = Ls if (c0 in (0, (1 << (8 * h)) - 2) or cid.startswith('stub')) else [L for L in Ls if L in (0, 1, n, n + 1, 3 * n + 1)]
            for L in lens:
                M = msg(L, 0 if nk == 'zero' else 1)
                ks = b''.join(c.enc(nonce + ((c0 + j) % (1 << (8 * h))).to_bytes(h, 'big')) for j in range((L + n - 1) // n))
                exp = xor(M, ks)
                if form == 'bytes':
                    mk = lambda: Mo.CTR(c, nonce + cb)
                else:
                    mk = lambda: Mo.CTR(c, Mo.DefaultCounter(n).setup(nonce, cb))
                r = ctx.attempt(lambda: mk().enc(M))
                ctx.eq(K + '/enc', r, ('ok', exp))
                ctx.eq(K + '/dec', ctx.attempt(lambda: mk().dec(exp)), ('ok', M))
                if r[0] == 'ok':
                    ctx.eq(K + '/length', len(r[1]), L)


# ---- CTS -----------------------------------------------------------------------------

def pts_cts(tier):
    return [(cid, mode, tier) for cid in stubs(tier)[1:] + list(REAL) for mode in ('CTS_ECB', 'CTS_CBC')]


def run_cts(ctx, pt):
    from crysp import mode as Mo
    cid, mode, tier = pt
    n = blen(cid)
    c = cipher(cid)
    K = 'C05/' + mode
    for L in lengths(cid, tier):
        if L < n:
            continue
        for d in (0, 1) if cid.startswith('stub') else (0,):
            M = msg(L, d)
            for ivk in ('zero', 'ramp') if mode == 'CTS_CBC' else (None,):
                if mode == 'CTS_ECB':
                    mk = lambda: Mo.CTS_ECB(c)
                    extra = 0
                else:
                    iv = iv_of(ivk, n)
                    mk = lambda: Mo.CTS_CBC(c, iv)
                    extra = n
                r = ctx.attempt(lambda: mk().enc(M))
                ctx.ok(K + '/enc-length', r[0] == 'ok' and isinstance(r[1], bytes) and len(r[1]) == L + extra, r if r[0] != 'ok' else len(r[1]), L + extra)
                if r[0] == 'ok':
                    if mode == 'CTS_CBC':
                        ctx.eq(K + '/iv-first', r[1][:n], iv)
                    ctx.eq(K + '/dec-of-enc', ctx.attempt(lambda: mk().dec(r[1])), ('ok', M))
                    if L % n == 0:
                        # whole blocks: ciphertext stealing degenerates to plain ECB / CBC
                        exp = sp800_ecb(c.enc, M, n) if mode == 'CTS_ECB' else sp800_cbc(c.enc, iv, M, n)
                        ctx.eq(K + '/whole-blocks-equal-plain-mode', r[1], exp)


# ---- SP 800-38A appendix F vectors (AES-128) --------------------------------------------

def pts_nist(tier):
    return ['F.1.1', 'F.2.1', 'F.5.1']


def run_nist(ctx, which):
    from crysp import mode as Mo
    from crysp.aes import AES
    from crysp.padding import nopadding
    h = bytes.fromhex
    key = h('2b7e151628aed2a6abf7158809cf4f3c')
    ptx = h('6bc1bee22e409f96e93d7e117393172aae2d8a571e03ac9c9eb76fac45af8e5130c81c46a35ce411e5fbc1191a0a52eff69f2445df4f9b17ad2b417be66c3710')
    if which == 'F.1.1':
        ct = h('3ad77bb40d7a3660a89ecaf32466ef97f5d3d58503b9699de785895a96fdbaaf43b1cd7f598ece23881b00e3ed0306887b0c785e27e8ad3f8223207104725dd4')
        ctx.eq('C05/ECB/none/sp800-38a-vector', ctx.attempt(lambda: Mo.ECB(AES(key), pad=nopadding).enc(ptx)), ('ok', ct))
    elif which == 'F.2.1':
        iv = h('000102030405060708090a0b0c0d0e0f')
        ct = h('7649abac8119b246cee98e9b12e9197d5086cb9b507219ee95db113a917678b273bed6b8e3c1743b7116e69e222295163ff1caa1681fac09120eca307586e1a7')
        ctx.eq('C05/CBC/none/sp800-38a-vector', ctx.attempt(lambda: Mo.CBC(AES(key), iv, pad=nopadding).enc(ptx)), ('ok', iv + ct))
    else:
        ctr = h('f0f1f2f3f4f5f6f7f8f9fafbfcfdfeff')
        ct = h('874d6191b620e3261bef6864990db6ce9806f66b7970fdff8617187bb9fffdff5ae4df3edbd5d35e5b4f09020db03eab1e031dda2fbe03d1792170a0f3009cee')
        ctx.eq('C05/CTR/sp800-38a-vector', ctx.attempt(lambda: Mo.CTR(AES(key), ctr).enc(ptx)), ('ok', ct))


def pts_usercounter(tier):
    return [(cid, kind) for cid in ('stub128', 'aes128', 'stub64', 'des') for kind in ('plain-class', 'defaultcounter-subclass')]


def run_usercounter(ctx, pt):
    """CTR with a counter object supplied by the caller (the documented protocol: reset() and a call per block): an
    RFC 3686-style layout nonce | iv | counter starting at 1.  SP 800-38A with exactly those counter blocks."""
    from crysp import mode as Mo
    cid, kind = pt
    n = blen(cid)
    c = cipher(cid)
    head = ramp(n - n // 4, 7, 3)

    def block(j):
        return head + (1 + j).to_bytes(n // 4, 'big')
    if kind == 'plain-class':
        class Ctr(object):
            def reset(self):
                self.j = 0

            def __call__(self):
                self.j += 1
                return block(self.j - 1)
        counter = Ctr()
    else:
        class Ctr(Mo.DefaultCounter):
            def reset(self):
                Mo.DefaultCounter.reset(self)
                self.j = 0

            def __call__(self):
                self.j += 1
                return block(self.j - 1)
        counter = Ctr(n).setup(bytes(n - n // 2), bytes(n // 2))
    o = Mo.CTR(c, counter)
    for L in (0, 1, n - 1, n, n + 1, 3 * n + 2):
        M = msg(L, 1)
        ks = b''.join(c.enc(block(j)) for j in range((L + n - 1) // n))
        ctx.eq('C05/CTR/user-supplied-counter/%s' % kind, ctx.attempt(o.enc, M), ('ok', xor(M, ks)))
        ctx.eq('C05/CTR/user-supplied-counter/%s' % kind, ctx.attempt(o.dec, xor(M, ks)), ('ok', M))


def subchecks():
    return [
        Sub('ecb-cbc', pts_ecbcbc, run_ecbcbc, engine='P', chunk=1,
            bound='mode in {ECB,CBC} x padding in {PKCS#7, X9.23, ISO 7816-4, zero (enc only), none (whole blocks)} x stub cipher of block size 8,16,24,64,128,256,512,1024 bits with every |M| in 0..4 blocks+1 and 3 data patterns (one whose tail equals its own pad byte), and every real cipher (9) with every |M| in 0..blocklen+1 and k blocks +{0,1,blen-1}, k<=3; IV in {zero, ramp}; enc == SP800-38A(pad_spec(M)), dec(enc(M)) == M with a fresh object, dec(spec ciphertext) == M'),
        Sub('ctr', pts_ctr, run_ctr, engine='P', chunk=1,
            bound='stub block sizes 16..1024 bits and 9 real ciphers; nonce half in {zero, ramp}; counter half in {0,1,2^h-2,2^h-1,0x0102..}; counter given as bytes and as a DefaultCounter set up by hand; |M| as above (<=3 blocks+1 for large blocks)'),
        Sub('ctr-user-counters', pts_usercounter, run_usercounter, engine='P',
            bound='CTR over 2 stubs, AES, DES with a caller-supplied counter object (a plain class with reset/__call__, and a DefaultCounter subclass overriding them) producing nonce|iv|counter-from-1 blocks; 6 lengths, enc and dec'),
        Sub('cbc-crafted', pts_cbc_crafted, run_cbc_crafted, engine='P',
            bound='CBC (pkcs7, none) and CTS_CBC over 2 stub and 9 real ciphers: 4-block messages in which block 0, 1 or 2 is chosen with cipher.dec so that its ciphertext block equals the IV / the previous ciphertext block / zero; 2 IVs; CTS tails 0, 1, blen-1'),
        hsub('ctr-counter-histories', ctr_systems, lambda tier: 3 if tier == 'quick' else 4,
             bound='one CTR object with a DefaultCounter; events: counter.setup with 3 (nonce,count) pairs (one 2 steps before the wrap), enc of 0 / 1 / 2 blocks+1 bytes, dec; all histories to depth 3 (thorough 4); every enc/dec equals SP 800-38A under the configuration set last'),
        hsub('mode-object-histories', mode_systems, lambda tier: 3 if tier == 'quick' else 4,
             bound='one ECB / CBC object (no padding) and a pair of CTR objects sharing one DefaultCounter, over a stub, a stub that fails transiently on its 1st or 2nd block operation (the request must raise, the next ones must be unaffected) and AES (thorough + DES, Threefish-256): enc / dec of 3 fixed values, the IV attribute of the CBC object reassigned, dec and enc of the object\'s own ciphertexts, calls on the second CTR object; all histories to depth 3 (thorough 4) vs the stateless SP 800-38A model'),
        Sub('cts', pts_cts, run_cts, engine='P', chunk=1,
            bound='CTS_ECB / CTS_CBC over the stub ciphers (block >= 16 bits) and 9 real ciphers, every |M| >= one block as above: length, IV first, round trip with a fresh object, whole-block case equals the plain mode'),
        Sub('sp800-38a-vectors', pts_nist, run_nist, engine='P', bound='SP 800-38A F.1.1, F.2.1, F.5.1 (AES-128)'),
    ]


ASSUMPTIONS = ['the oracle uses the same block function (cipher.enc) as the mode under test: C05 is about the mode logic; the block ciphers themselves are C02',
               'zero padding is encrypt-only (not invertible); no/zero padding of the empty message not exercised; CTS only for |M| >= one block; CTS variant not fixed (length + round trip)',
               'CTR(cipher) without a configured counter is not exercised; odd block lengths are not used for CTR (halves undefined)']
