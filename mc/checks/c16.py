"""C16 - Poly: element-wise ring arithmetic, sequence indexing, consistent re-chunking.
Model: a vector over Z/2^k is a Python list of ints in 0..2^k-1 (k=0: any ints)."""
import itertools
from mc.engine import Sub, HSystem, hsub


def P_(v, k):
    from crysp.poly import Poly
    return Poly(list(v), k)


def val(p):
    """observation of a Poly: (coefficients, ring size)"""
    if p is None:
        return None
    return (list(p.ival) if p.ival else [], p.size)


def scribble(p):
    """overwrite a returned Poly / coefficient in place through the public mutators (item assignment, size / dim
    setters): results must be independent of operands and of later results"""
    try:
        if hasattr(p, 'ival') and isinstance(p.ival, list):
            for i in range(len(p.ival)):
                p[i] = (p.ival[i] + 1) & (p.mask if p.mask != -1 else 0xff)
            p.dim = len(p.ival) + 1
        elif hasattr(p, 'ival'):
            p.size = p.size + 1
            for i in range(p.size):
                p[i] = 1 - p.bit(i)
    except Exception:
        pass


def vectors(k, maxdim):
    out = []
    for d in range(maxdim + 1):
        out += [list(t) for t in itertools.product(range(1 << k), repeat=d)]
    return out


def bounds(tier):
    return {1: 6, 2: 4, 3: 3} if tier == 'thorough' else {1: 5, 2: 3, 3: 2}


def pts_binary(tier):
    pts = []
    for k, md in bounds(tier).items():
        for a in vectors(k, md):
            pts.append((k, md, tuple(a)))
    if tier == 'thorough':
        # ring 3 at dimension 4 against every vector of dimension <= 2 (and the reverse order)
        for a in itertools.product(range(8), repeat=4):
            pts.append((3, 2, tuple(a)))
    return pts


OPS = {'add': lambda x, y, m: (x + y) & m, 'sub': lambda x, y, m: (x - y) & m, 'xor': lambda x, y, m: x ^ y,
       'and': lambda x, y, m: x & y, 'or': lambda x, y, m: x | y}


def apply_op(op, A, B):
    return {'add': lambda: A + B, 'sub': lambda: A - B, 'xor': lambda: A ^ B, 'and': lambda: A & B, 'or': lambda: A | B}[op]()


def run_binary(ctx, pt):
    k, md, a = pt
    a = list(a)
    m = (1 << k) - 1
    for b in vectors(k, md):
        d = max(len(a), len(b))
        ea = a + [0] * (d - len(a))
        eb = b + [0] * (d - len(b))
        for order in ((a, b), (b, a)) if len(a) > md else ((a, b),):
            x, y = order
            ex = x + [0] * (d - len(x))
            ey = y + [0] * (d - len(y))
            A, B = P_(x, k), P_(y, k)
            for op, f in OPS.items():
                r = ctx.attempt(lambda: val(apply_op(op, A, B)))
                ctx.eq('C16/%s' % op, r, ('ok', ([f(p, q, m) for p, q in zip(ex, ey)], k)))
                if len(x) != len(y) and op in ('add', 'xor'):
                    # padding coefficients handed out by e() / a result must not be shared state: scribble on them, evaluate again
                    z1, z2 = A.e(len(A.ival) + 1), B.e(len(B.ival) + 1)
                    scribble(z1)
                    if z2 is not z1:
                        scribble(z2)
                    scribble(apply_op(op, A, B))
                    r = ctx.attempt(lambda: val(apply_op(op, A, B)))
                    ctx.eq('C16/%s/result-shared-with-later-evaluation' % op, r, ('ok', ([f(p, q, m) for p, q in zip(ex, ey)], k)))
            r = ctx.attempt(lambda: val(A // B))
            ctx.eq('C16/concat', r, ('ok', (x + y, k)))
            ctx.ok('C16/operand-mutated', val(A) == (x, k) and val(B) == (y, k), (val(A), val(B)))
            # operands of the base class SubPoly on either side (what indexing a SubPoly hands out) and augmented spellings
            if len(x) and len(y):
                from crysp.poly import SubPoly
                import operator as _op
                for (ca, cb, tag) in ((SubPoly, P_, 'subpoly-poly'), (P_, SubPoly, 'poly-subpoly'), (SubPoly, SubPoly, 'subpoly-subpoly')):
                    A2 = ca(list(x), k)
                    B2 = cb(list(y), k)
                    for op, f in OPS.items():
                        r = ctx.attempt(lambda: val(apply_op(op, A2, B2)))
                        ctx.eq('C16/%s/%s' % (op, tag), r, ('ok', ([f(p, q, m) for p, q in zip(ex, ey)], k)))
                    ctx.ok('C16/operand-mutated', val(A2) == (x, k) and val(B2) == (y, k), (val(A2), val(B2)))
                for op, g in (('add', _op.iadd), ('sub', _op.isub), ('xor', _op.ixor), ('and', _op.iand), ('or', _op.ior)):
                    A3 = P_(x, k)
                    alias = A3
                    r = ctx.attempt(lambda: val(g(A3, B)))
                    ctx.eq('C16/%s/augmented' % op, r, ('ok', ([OPS[op](p, q, m) for p, q in zip(ex, ey)], k)))
                    ctx.ok('C16/%s/augmented/another-reference-to-the-left-operand-changed' % op, val(alias) == (x, k) and val(B) == (y, k), (val(alias), val(B)))


def pts_unary(tier):
    pts = []
    for k, md in bounds(tier).items():
        for a in vectors(k, md + 1):
            pts.append((k, tuple(a)))
    return pts


def run_unary(ctx, pt):
    from crysp.poly import Poly
    k, a = pt
    a = list(a)
    m = (1 << k) - 1
    A = P_(a, k)
    ctx.eq('C16/construct', val(A), (a, k))
    ctx.eq('C16/dim', (A.dim, len(A)), (len(a), len(a)))
    ctx.eq('C16/copy', val(Poly(A)), (a, k))
    for nd in (len(a) + 2, max(1, len(a) - 1)):
        C = Poly(A, dim=nd)
        ctx.eq('C16/copy-with-dim', (val(C), val(A)), (((a + [0, 0])[:nd] if nd > len(a) else a[:nd], k), (a, k)))
        scribble(C)
        ctx.eq('C16/copy-with-dim/aliases-its-source', val(A), (a, k))
    for i in range(len(a)):
        g = A[i]
        scribble(g)
        ctx.eq('C16/getitem-int/result-aliases-its-source', (val(A), val(A[i])), ((a, k), ([a[i]], k)))
    r = ctx.attempt(lambda: val(-A))
    ctx.eq('C16/neg', r, ('ok', ([(-x) & m for x in a], k)))
    r = ctx.attempt(lambda: val(A + (-A)))
    ctx.eq('C16/neg/additive-inverse', r, ('ok', ([0] * len(a), k)))
    for n in range(0, k + 2):
        r = ctx.attempt(lambda: val(A << n))
        ctx.eq('C16/lshift', r, ('ok', ([(x << n) & m for x in a], k)))
        r = ctx.attempt(lambda: val(A >> n))
        ctx.eq('C16/rshift', r, ('ok', ([x >> n for x in a], k)))
    ctx.eq('C16/iter', [int(x) for x in A], a)
    ctx.eq('C16/e', [int(A.e(i)) for i in range(len(a) + 2)], a + [0, 0])
    ctx.ok('C16/operand-mutated', val(A) == (a, k), val(A))
    # indexing: read
    d = len(a)
    for i in range(-d, d):
        ctx.eq('C16/getitem-int', ctx.attempt(lambda: val(A[i])), ('ok', ([a[i]], k)))
        for v in range(1 << k):
            def f():
                X = P_(a, k)
                X[i] = v
                return val(X)
            na = list(a)
            na[i] = v
            ctx.eq('C16/setitem-int', ctx.attempt(f), ('ok', (na, k)))
    rng = [None] + list(range(0, d + 1))
    for st in rng:
        for sp in rng:
            for step in (None, 1, 2):
                sel = a[slice(st, sp, step)]
                idx = list(range(d))[slice(st, sp, step)]
                r = ctx.attempt(lambda: val(A[st:sp:step]))
                ctx.eq('C16/getitem-slice', r, ('ok', (sel, k)))
                if idx and len(idx) <= 3:
                    for v in ([[(x + 1) & m for x in sel], [m - x for x in sel]] if k > 1 or len(idx) > 2 else
                              [list(t) for t in itertools.product(range(1 << k), repeat=len(idx))]):
                        na = list(a)
                        for i, b in zip(idx, v):
                            na[i] = b

                        def f1():
                            X = P_(a, k)
                            X[st:sp:step] = list(v)
                            return val(X)

                        def f2():
                            X = P_(a, k)
                            V = P_(v, k)
                            X[st:sp:step] = V
                            return val(X), val(V)
                        ctx.eq('C16/setitem-slice-list', ctx.attempt(f1), ('ok', (na, k)))
                        if len(idx) >= 2:
                            # a value shorter than the selection: whatever the target becomes, the value itself stays as it was
                            V = P_(v[:-1], k)
                            X = P_(a, k)
                            ctx.attempt(lambda: X.__setitem__(slice(st, sp, step), V))
                            ctx.eq('C16/setitem-slice-poly/value-changed', val(V), (list(v[:-1]), k))
                            # whatever a value of another length / a wider ring / raw bytes does to the target, every
                            # coefficient of the target stays inside its ring
                            for wide in (Poly([255, 254][:max(1, len(idx) - 1)], 8), bytes([0xf5, 0x07][:max(1, len(idx) - 1)]), [1 << (k + 2)] * (len(idx) - 1)):
                                X = P_(a, k)
                                ctx.attempt(lambda: X.__setitem__(slice(st, sp, step), wide))
                                ctx.ok('C16/setitem-slice/coefficient-outside-the-ring', all(0 <= c <= m for c in X.ival) and X.size == k, val(X))
                        ctx.eq('C16/setitem-slice-poly', ctx.attempt(f2), ('ok', ((na, k), (list(v), k))))
    # a Bits value (what e(i) and iteration hand out) denotes its integer: assigning it through any selector gives what
    # assigning that integer gives - whatever number of coefficients the selector addresses (differential: the statement
    # does not say what a scalar assigned to several coefficients means)
    from crysp.bits import Bits
    sels = [i for i in range(-d, d)] + [slice(st, sp, step) for st in range(d) for sp in range(st + 1, d + 1) for step in (None, 2)]
    if d <= 4:
        sels += [list(t) for ln in (1, 2, 3, 4) for t in itertools.product(range(d), repeat=ln) if len(set(t)) == ln][:64]
    for sel in sels:
        for w in (1, 2, 3, 4, 8):
            for v in sorted({1, (1 << w) - 1, (1 << (w - 1)) | 1}):
                def fb():
                    X = P_(a, k)
                    X[sel] = Bits(v, w)
                    return val(X)

                def fi():
                    X = P_(a, k)
                    X[sel] = v
                    return val(X)
                ctx.eq('C16/setitem/bits-scalar-differs-from-the-same-integer', ctx.attempt(fb), ctx.attempt(fi))
    # the value assigned is the target itself (any selector, also one that addresses fewer coefficients than the value has):
    # the outcome is what an equal, independent copy of the target gives - whatever the library makes of a longer value
    for sel in sels:
        def f_self():
            X = P_(a, k)
            X[sel] = X
            return val(X)

        def f_copy():
            X = P_(a, k)
            X[sel] = P_(a, k)
            return val(X)
        ctx.eq('C16/setitem/value-is-the-target-itself-differs-from-an-equal-copy', ctx.attempt(f_self), ctx.attempt(f_copy))
    # range objects as index sequences (also starting below zero: positions count from the end, as in a list)
    for r0 in range(-d, d):
        for r1 in range(r0, d + 1):
            for st in (1, 2):
                rg = range(r0, r1, st)
                if len(rg) == 0 or any(not (-d <= j < d) for j in rg):
                    continue
                ctx.eq('C16/getitem-range', ctx.attempt(lambda: val(A[rg])), ('ok', ([a[j] for j in rg], k)))
                ctx.eq('C16/getitem-range', ctx.attempt(lambda: val(A[rg])), ctx.attempt(lambda: val(A[list(rg)])))
    if d <= 4:
        for ln in range(1, 4):
            for idx in itertools.product(range(d), repeat=ln):
                idx = list(idx)
                ctx.eq('C16/getitem-list', ctx.attempt(lambda: val(A[idx])), ('ok', ([a[j] for j in idx], k)))
                ctx.eq('C16/getitem-tuple', ctx.attempt(lambda: val(A[tuple(idx)])), ('ok', ([a[j] for j in idx], k)))
                v = [(a[j] + 1 + t) & m for t, j in enumerate(idx)]
                na = list(a)
                for i, b in zip(idx, v):
                    na[i] = b

                def f():
                    X = P_(a, k)
                    X[idx] = list(v)
                    return val(X), list(idx)
                ctx.eq('C16/setitem-list', ctx.attempt(f), ('ok', ((na, k), idx)))
    ctx.ok('C16/operand-mutated', val(A) == (a, k), val(A))


# ---- integers ring (k = 0) -------------------------------------------------------

def pts_zring(tier):
    vs = [-3, -1, 0, 1, 2, 5] if tier == 'thorough' else [-2, 0, 1, 3]
    out = []
    for d in range(0, 3):
        out += [tuple(t) for t in itertools.product(vs, repeat=d)]
    return [(a, tuple(vs)) for a in out]


def run_zring(ctx, pt):
    a, vs = pt
    a = list(a)
    for d in range(0, 3):
        for b in itertools.product(vs, repeat=d):
            b = list(b)
            n = max(len(a), len(b))
            ea, eb = a + [0] * (n - len(a)), b + [0] * (n - len(b))
            A, B = P_(a, 0), P_(b, 0)
            for op, f in (('add', lambda x, y: x + y), ('sub', lambda x, y: x - y), ('xor', lambda x, y: x ^ y),
                          ('and', lambda x, y: x & y), ('or', lambda x, y: x | y)):
                r = ctx.attempt(lambda: val(apply_op(op, A, B)))
                ctx.eq('C16/Z/%s' % op, r, ('ok', ([f(p, q) for p, q in zip(ea, eb)], 0)))
            ctx.ok('C16/Z/operand-mutated', val(A) == (a, 0) and val(B) == (b, 0))
    A = P_(a, 0)
    ctx.eq('C16/Z/neg', ctx.attempt(lambda: val(-A)), ('ok', ([-x for x in a], 0)))
    ctx.eq('C16/Z/neg/additive-inverse', ctx.attempt(lambda: val(A + (-A))), ('ok', ([0] * len(a), 0)))
    for n in (0, 1, 3):
        ctx.eq('C16/Z/lshift', ctx.attempt(lambda: val(A << n)), ('ok', ([x << n for x in a], 0)))
        ctx.eq('C16/Z/rshift', ctx.attempt(lambda: val(A >> n)), ('ok', ([x >> n for x in a], 0)))


# ---- split / pack ------------------------------------------------------------------

def pts_chunks(tier):
    pts = []
    for k in (8, 16, 24, 32, 64) + ((40, 48, 56) if tier == 'thorough' else ()):
        m = (1 << k) - 1
        alpha = [0, 1, m, 0x0102030405060708 & m, 0xf0e1d2c3b4a59687 & m, 1 << (k - 1)]
        for d in range(0, 4):
            for v in itertools.product(alpha, repeat=d) if d < 3 else [tuple(alpha[i:i + 3]) for i in range(4)]:
                pts.append((k, tuple(v)))
    return pts


def run_chunks(ctx, pt):
    from crysp.poly import Poly, pack
    k, a = pt
    a = list(a)
    A = P_(a, k)
    for k2 in (1, 2, 4, 8, 16, 32):
        if k % k2 or k2 > k:
            continue
        n = k // k2
        le = [(x >> (k2 * j)) & ((1 << k2) - 1) for x in a for j in range(n)]
        be = [(x >> (k2 * j)) & ((1 << k2) - 1) for x in a for j in reversed(range(n))]
        ctx.eq('C16/split', ctx.attempt(lambda: val(A.split(k2))), ('ok', (le, k2)))
        ctx.eq('C16/split-bigend', ctx.attempt(lambda: val(A.split(k2, bigend=True))), ('ok', (be, k2)))
        ctx.eq('C16/split-bigend/truthy-flag', ctx.attempt(lambda: val(A.split(k2, bigend=1))), ('ok', (be, k2)))
        ctx.eq('C16/split/falsy-flag', ctx.attempt(lambda: val(A.split(k2, bigend=0))), ('ok', (le, k2)))
    ctx.eq('C16/pack', ctx.attempt(lambda: pack(A)), ('ok', b''.join(x.to_bytes(k // 8, 'little') for x in a)))
    ctx.eq('C16/pack-of-bigend-split', ctx.attempt(lambda: pack(A.split(8, bigend=True))),
           ('ok', b''.join(x.to_bytes(k // 8, 'big') for x in a)))
    if k == 8:
        ctx.eq('C16/from-bytes', ctx.attempt(lambda: val(Poly(bytes(a)))), ('ok', (a, 8)))
    ctx.ok('C16/operand-mutated', val(A) == (a, k))


# ---- H: assignment histories -------------------------------------------------------

class PolySys(HSystem):
    def __init__(self, k, d):
        self.k, self.d = k, d

    def qs(self):
        m = (1 << self.k) - 1
        return [[m] * self.d, [1] + [0] * (self.d - 1), [m] * (self.d - 1), [0] * self.d + [m]]

    def fresh(self):
        p = P_([0] * self.d, self.k)
        return {'p': p, 'model': [0] * self.d, 'alias': None, 'q': [P_(q, self.k) for q in self.qs()]}

    def canon(self, o):
        # everything the live objects carry (memoised attributes included), not only the coefficients: an operator that
        # leaves something behind in its operands leads to a new state, which is then explored further
        from mc.engine import canon as gcanon
        return (gcanon(o['p']), gcanon(o['q']))

    def events(self, o):
        ev = []
        R = range(1 << self.k)
        for i in range(-self.d, self.d):
            for v in R:
                ev.append(('int', i, v))
        for a in range(self.d):
            for b in range(a + 1, self.d + 1):
                for step in (1, 2):
                    idx = list(range(self.d))[a:b:step]
                    if step == 2 and len(idx) == len(range(a, b)):
                        continue
                    for v in itertools.product((0, (1 << self.k) - 1, 1), repeat=len(idx)):
                        ev.append(('slice', a, b, step, tuple(v)))
        for idx in itertools.product(range(self.d), repeat=2):
            for v in ((1, 2), (3, 0)):
                ev.append(('list', idx, v))
        for idx in ((-1, 0), (0, -1), (-1, -2)):
            ev.append(('list', idx, (1, (1 << self.k) - 1)))
        for op in sorted(OPS):
            for qi in range(len(self.qs())):
                ev.append(('op', op, qi))
        ev += [('unary', 'neg'), ('unary', 'lshift'), ('unary', 'rshift'), ('unary', 'read')]
        return ev

    def apply(self, o, ev):
        p = o['p']
        m = o['model']
        o['alias'] = (p[0:self.d], list(m))
        if ev[0] == 'op':
            q = o['q'][ev[2]]
            return (val(apply_op(ev[1], p, q)), val(apply_op(ev[1], q, p)))
        if ev[0] == 'unary':
            if ev[1] == 'neg':
                return val(-p)
            if ev[1] == 'lshift':
                return val(p << 1)
            if ev[1] == 'rshift':
                return val(p >> 1)
            return ([int(x) for x in p], val(p[0:self.d:2]), val(p[[self.d - 1, 0]]), [val(p[i]) for i in range(-self.d, self.d)])
        if ev[0] == 'int':
            p[ev[1]] = ev[2]
            m[ev[1]] = ev[2]
        elif ev[0] == 'slice':
            p[ev[1]:ev[2]:ev[3]] = list(ev[4])
            for i, v in zip(list(range(self.d))[ev[1]:ev[2]:ev[3]], ev[4]):
                m[i] = v
        else:
            p[list(ev[1])] = list(ev[2])
            for i, v in zip(ev[1], ev[2]):
                m[i] = v & ((1 << self.k) - 1)
        return list(p.ival)

    def judge(self, ctx, hist, ev, res, o):
        k, d, a = self.k, self.d, o['model']
        mk = (1 << k) - 1
        if ev[0] == 'op':
            q = self.qs()[ev[2]]
            n = max(d, len(q))
            x, y = a + [0] * (n - d), q + [0] * (n - len(q))
            f = OPS[ev[1]]
            ctx.eq('C16/history/operator-%s' % ev[1], res, ('ok', (([f(u, v, mk) for u, v in zip(x, y)], k), ([f(v, u, mk) for u, v in zip(x, y)], k))))
            ctx.eq('C16/history/operator-changed-an-operand', (val(o['p']), [val(t) for t in o['q']]), ((a, k), [(t, k) for t in self.qs()]))
            return
        if ev[0] == 'unary':
            exp = {'neg': ([(-u) & mk for u in a], k), 'lshift': ([(u << 1) & mk for u in a], k), 'rshift': ([u >> 1 for u in a], k),
                   'read': (a, (a[0:d:2], k), ([a[d - 1], a[0]], k), [([a[i]], k) for i in range(-d, d)])}[ev[1]]
            ctx.eq('C16/history/%s' % ev[1], res, ('ok', exp))
            return
        ctx.eq('C16/history/setitem-%s' % ev[0], res, ('ok', o['model']))
        al, am = o['alias']
        ctx.ok('C16/history/alias-changed', list(al.ival) == am, (list(al.ival), am))


def systems(tier):
    return {'k2-dim3': PolySys(2, 3), 'k1-dim4': PolySys(1, 4)} if tier == 'quick' else \
           {'k2-dim3': PolySys(2, 3), 'k1-dim5': PolySys(1, 5), 'k3-dim2': PolySys(3, 2), 'k2-dim4': PolySys(2, 4)}


def subchecks():
    return [
        Sub('binary', pts_binary, run_binary, engine='D',
            bound='every ordered pair of vectors over Z/2^k: k=1 dims 0..5, k=2 dims 0..3, k=3 dims 0..2 (thorough: 0..6, 0..4, 0..3, plus every k=3 dim-4 vector against every vector of dim<=2 in both orders): + - ^ & | //'),
        Sub('unary-index', pts_unary, run_unary, engine='D',
            bound='every vector up to one dimension more than above: neg, a+(-a), shifts 0..k+1, every int index, every in-range slice (step None/1/2), every index list of length<=3; reads and writes; a Bits scalar of width 1,2,3,4,8 through every selector equals the same integer assigned'),
        Sub('integers-ring', pts_zring, run_zring, engine='D', bound='k=0: dims 0..2 over a small signed alphabet, all pairs'),
        Sub('split-pack', pts_chunks, run_chunks, engine='P', exhaustive=False,
            bound='k in {8,16,24,32,64} (+40,48,56): dims 0..3 over a 6-value alphabet; split to every dividing size, both endiannesses, pack'),
        hsub('assignment-histories', systems, 12, bound='one live Poly p and four fixed operands (full, trailing zeros, shorter, longer): all p[idx]=v forms (negative indices and index lists included) interleaved with + - ^ & | in both operand orders, neg, shifts and reads; state = everything the live objects carry; BFS to the fixpoint'),
    ]


ASSUMPTIONS = ['slices are exercised in range only (the library deliberately zero-extends out-of-range slices)',
               'slice/list assignment judged for exact-length list/Poly values only; pack(poly, ">L") is not exercised (ambiguous layout)']
