"""C03 - every block cipher is a permutation: dec inverts enc, and so do their parts.
Purely differential: no reference model is involved."""
import itertools
from mc.engine import Sub
from mc.common import ramp, expander, single_bits, DATA
from mc.checks import cipherfam as F


def stride(tier):
    return 1 if tier == 'thorough' else 4


def pts_roundtrip(tier):
    st = stride(tier)
    pts = []
    for c in F.CIPHERS:
        for i in range(len(F.keys(c, st))):
            pts.append((c, 'varkey', i, st))
        if c == 'serpent':
            for j in range(3):
                pts.append((c, 'vartext-all', j, st))
        else:
            for i in range(len(F.blocks(c, st))):
                pts.append((c, 'vartext', i, st))
        if c.startswith('tf'):
            for i in range(len(F.tweaks(st))):
                pts.append((c, 'vartweak', i, st))
    return pts


def rt(ctx, c, o, blk, tag=''):
    n = F.BLOCKLEN[c]
    c = c + tag
    e = ctx.attempt(o.enc, blk)
    ctx.ok('C03/%s/enc-length' % c, e[0] == 'ok' and isinstance(e[1], bytes) and len(e[1]) == n, e)
    if e[0] == 'ok':
        ctx.eq('C03/%s/dec-of-enc' % c, ctx.attempt(o.dec, e[1]), ('ok', blk))
    d = ctx.attempt(o.dec, blk)
    ctx.ok('C03/%s/dec-length' % c, d[0] == 'ok' and isinstance(d[1], bytes) and len(d[1]) == n, d)
    if d[0] == 'ok':
        ctx.eq('C03/%s/enc-of-dec' % c, ctx.attempt(o.enc, d[1]), ('ok', blk))


def run_roundtrip(ctx, pt):
    c, kind, i, st = pt
    if kind == 'varkey':
        r = ctx.attempt(F.make, c, F.keys(c, st)[i])
        if r[0] != 'ok':
            ctx.eq('C03/%s/construct' % c, r, 'ok')
            return
        for blk in F.fixed_blocks(c):
            rt(ctx, c, r[1], blk)
    elif kind == 'vartext-all':
        o = F.make(c, F.fixed_keys(c)[i])
        for blk in F.blocks(c, st):
            rt(ctx, c, o, blk)
    elif kind == 'vartext':
        for key in F.fixed_keys(c):
            rt(ctx, c, F.make(c, key), F.blocks(c, st)[i])
    else:
        for key in F.fixed_keys(c)[1:]:
            o = F.make(c, key, F.tweaks(st)[i])
            for blk in F.fixed_blocks(c)[:2]:
                rt(ctx, c, o, blk)


def pts_inter(tier):
    return [(a, b) for a in F.CIPHERS for b in F.CIPHERS]


def run_inter(ctx, pt):
    """round trips on an object after another object (another cipher / size / key) has been constructed and used"""
    a, b = pt
    A = F.make(a, F.fixed_keys(a)[1], ramp(16, 3, 7))
    B = F.make(b, F.fixed_keys(b)[2], expander(16, 9))
    for (c, o) in ((a, A), (b, B), (a, A)):
        for blk in F.fixed_blocks(c)[1:]:
            rt(ctx, c + '/with-another-live-instance', o, blk) if False else rt(ctx, c, o, blk)


def pts_tfstates(tier):
    return [(c, s) for c in ('tf256', 'tf512', 'tf1024') for s in range(0, (20 if c == 'tf1024' else 18) + 1)]


def run_tfstates(ctx, pt):
    """round trips on blocks crafted (with the reference Threefish, used here only to choose inputs) so that the state after
    subkey injection s carries boundary words; and on the decryption side, ciphertexts of those blocks"""
    from mc.engine import InternalError
    c, s = pt
    try:
        key, tw, blocks = F.tf_crafted_blocks(c, s)
    except AssertionError as e:
        raise InternalError(str(e))
    o = F.make(c, key, tw)
    for P in blocks:
        rt(ctx, c, o, P, '/internal-state-classes')


def pts_manykeys(tier):
    return [('aes128', 9000), ('des', 9000), ('tf256', 9000), ('aes256', 4500)] if tier == 'thorough' else []


def run_manykeys(ctx, pt):
    """one process that uses thousands of distinct keys (thorough only): the object made for the first key again afterwards
    still inverts what the first object did"""
    c, N = pt
    n = F.KEYLEN[c]
    k0 = expander(n, 21)
    blk = F.fixed_blocks(c)[2]
    A1 = F.make(c, k0)
    c0 = A1.enc(blk)
    for i in range(1, N + 1):
        o = F.make(c, (int.from_bytes(k0, 'big') ^ (i * 0x9e3779b97f4a7c15)).to_bytes(n + 8, 'big')[-n:])
        x = o.enc(blk)
        if i % 1000 == 0:
            ctx.eq('C03/%s/dec-of-enc' % c, ctx.attempt(o.dec, x), ('ok', blk))
    A2 = F.make(c, k0)
    ctx.eq('C03/%s/after-many-keys-in-one-process' % c, (ctx.attempt(A2.dec, c0), ctx.attempt(A2.enc, blk), ctx.attempt(A1.dec, c0)), (('ok', blk), ('ok', c0), ('ok', blk)))


# ---- component pairs on their entire (or enumerated) domain -----------------------------

def pts_components(tier):
    pts = [('aes-sbox', p) for p in range(16)]
    pts += [('aes-shiftrows',), ('aes-mixcolumns', 0), ('aes-mixcolumns', 1), ('aes-mixcolumns', 2), ('aes-mixcolumns', 3), ('aes-mixcolumns-2',),
            ('des-ip',), ('serpent-ipfp',), ('serpent-l',), ('index-maps',)]
    pts += [('serpent-sbox', b, h) for b in range(8) for h in range(4)]
    pts += [('rot-small', w) for w in range(1, (12 if tier == 'thorough' else 10) + 1)]
    pts += [('rot-wide', w) for w in (28, 32, 64, 128)]
    return pts


def run_components(ctx, pt):
    from crysp.bits import Bits
    from crysp.poly import Poly
    t = pt[0]
    if t == 'aes-sbox':
        from crysp.aes import Sbox, Sbox_inv
        p = pt[1]
        for v in range(256):
            st = [0x5a] * 16
            st[p] = v
            a = ctx.call(Sbox, Poly(st, 8))
            ctx.eq('C03/aes/Sbox_inv-of-Sbox', list(ctx.call(Sbox_inv, a).ival), st)
            b = ctx.call(Sbox_inv, Poly(st, 8))
            ctx.eq('C03/aes/Sbox-of-Sbox_inv', list(ctx.call(Sbox, b).ival), st)
    elif t == 'aes-shiftrows':
        from crysp.aes import AES
        A = AES(bytes(16))
        for st in [list(range(16)), list(range(16, 32))] + [list(d) for d in DATA(16)]:
            s = Poly(list(st), 8)
            A.ShiftRows(s)
            A.InvShiftRows(s)
            ctx.eq('C03/aes/InvShiftRows-of-ShiftRows', list(s.ival), st)
            A.InvShiftRows(s)
            A.ShiftRows(s)
            ctx.eq('C03/aes/ShiftRows-of-InvShiftRows', list(s.ival), st)
            s = Poly(list(st), 8)
            A.ShiftRows(s)
            ctx.ok('C03/aes/ShiftRows-is-a-byte-permutation', sorted(s.ival) == sorted(st), list(s.ival))
    elif t in ('aes-mixcolumns', 'aes-mixcolumns-2'):
        from crysp.aes import AES
        A = AES(bytes(16))

        def both(st):
            s = Poly(list(st), 8)
            A.MixColumns(s)
            A.InvMixColumns(s)
            ctx.eq('C03/aes/InvMixColumns-of-MixColumns', list(s.ival), list(st))
            s = Poly(list(st), 8)
            A.InvMixColumns(s)
            A.MixColumns(s)
            ctx.eq('C03/aes/MixColumns-of-InvMixColumns', list(s.ival), list(st))
        if t == 'aes-mixcolumns':
            for p in range(4 * pt[1], 4 * pt[1] + 4):
                for v in range(256):
                    st = [0] * 16
                    st[p] = v
                    both(st)
        else:
            for p, q in itertools.combinations(range(16), 2):
                for v, w in itertools.product((1, 2, 0x80, 0xff), repeat=2):
                    st = [0] * 16
                    st[p], st[q] = v, w
                    both(st)
            for d in DATA(16):
                both(list(d))
    elif t == 'des-ip':
        from crysp.des import IP, IPinv
        for b in single_bits(8) + DATA(8):
            x = Bits(b)
            ctx.eq('C03/des/IPinv-of-IP', (IPinv(IP(x)).ival, x.ival), (x.ival, int(Bits(b))))
            ctx.eq('C03/des/IP-of-IPinv', IP(IPinv(x)).ival, x.ival)
    elif t == 'serpent-ipfp':
        from crysp.serpent import _IP, _FP
        for b in single_bits(16) + DATA(16):
            x = Bits(b)
            ctx.eq('C03/serpent/_FP-of-_IP', _FP(_IP(x)).ival, x.ival)
            ctx.eq('C03/serpent/_IP-of-_FP', _IP(_FP(x)).ival, x.ival)
    elif t == 'serpent-l':
        from crysp.serpent import _L, _Linv
        for b in single_bits(16) + DATA(16):
            x = Bits(b)
            ctx.eq('C03/serpent/_Linv-of-_L', _Linv(_L(x)).ival, x.ival)
            ctx.eq('C03/serpent/_L-of-_Linv', _L(_Linv(x)).ival, x.ival)
    elif t == 'serpent-sbox':
        from crysp.serpent import _S, _Sinv
        box = pt[1]
        for pos in range(8 * pt[2], 8 * pt[2] + 8):
            for v in range(16):
                x = Bits(sum(((v >> k) & 1) << (pos + 32 * k) for k in range(4)), 128)
                ctx.eq('C03/serpent/_Sinv-of-_S', ctx.call(_Sinv, box, ctx.call(_S, box, x)).ival, x.ival)
                ctx.eq('C03/serpent/_S-of-_Sinv', ctx.call(_S, box, ctx.call(_Sinv, box, x)).ival, x.ival)
    elif t == 'index-maps':
        from crysp import salsa20, chacha
        for name, mod in (('salsa20', salsa20), ('chacha', chacha)):
            for a, b in (('rM', 'rMinv'), ('cM', 'cMinv')):
                f, g = getattr(mod, a), getattr(mod, b)
                ctx.eq('C03/%s/%s-%s-inverse-permutations' % (name, a, b),
                       (sorted(f), sorted(g), [g[f[i]] for i in range(16)], [f[g[i]] for i in range(16)]),
                       (list(range(16)), list(range(16)), list(range(16)), list(range(16))))
                x = Poly(list(range(100, 116)), 32)
                ctx.eq('C03/%s/%s-%s-on-vectors' % (name, a, b), (list(x[f][g].ival), list(x[g][f].ival)), (list(range(100, 116)),) * 2)
    elif t == 'rot-small':
        from crysp.utils.operators import rol, ror
        w = pt[1]
        for v in range(1 << w):
            x = Bits(v, w)
            for k in range(0, w + 1):
                ctx.eq('C03/ror-of-rol', (ror(rol(x, k), k).ival, ror(rol(x, k), k).size), (v, w))
                ctx.eq('C03/rol-of-ror', (rol(ror(x, k), k).ival, rol(ror(x, k), k).size), (v, w))
                ctx.eq('C03/rol-is-rotation', rol(x, k).ival, ((v << k) | (v >> (w - k))) & ((1 << w) - 1))
    elif t == 'rot-wide':
        from crysp.utils.operators import rol, ror
        w = pt[1]
        for b in single_bits(w // 8 if w % 8 == 0 else 4) + [None]:
            v = (int.from_bytes(b, 'big') if b is not None else 0x5a5a5a5) & ((1 << w) - 1)
            x = Bits(v, w)
            for k in range(0, w + 1):
                ctx.eq('C03/ror-of-rol', ror(rol(x, k), k).ival, v)
                ctx.eq('C03/rol-of-ror', rol(ror(x, k), k).ival, v)
                ctx.eq('C03/rol-is-rotation', rol(x, k).ival, ((v << k) | (v >> (w - k))) & ((1 << w) - 1))


def subchecks():
    return [
        Sub('roundtrip', pts_roundtrip, run_roundtrip, engine='P', exhaustive=False,
            bound='per cipher (AES-128/192/256, DES, TDEA, Serpent, Threefish-256/512/1024): key family (DES/TDEA: incl. the 72 keys written over the weak-key byte alphabet) x 3 blocks, 3 keys x block family, Threefish tweak family: dec(enc(B))==B, enc(dec(B))==B, lengths (quick: every 4th family member)'),
        Sub('interleaved-instances', pts_inter, run_inter, engine='H',
            bound='every ordered pair of the 9 cipher configurations: A constructed, then B, round trips on A, B, A'),
        Sub('threefish-internal-states', pts_tfstates, run_tfstates, engine='P',
            bound='Threefish-256/512/1024 x every subkey injection s: dec(enc(B)) and enc(dec(B)) on blocks chosen so that the state right after injection s has a last word in {0..3, s-1, s, 2^64-s, 2^64-1, 2^63} or a zero / all-ones first word'),
        Sub('many-keys', pts_manykeys, run_manykeys, engine='H', exhaustive=False, chunk=1,
            bound='thorough only: 9000 distinct keys (AES-256: 4500) used one after the other in one process for AES-128, DES, Threefish-256, then the first key again'),
        Sub('components', pts_components, run_components, engine='D',
            bound='Sbox/Sbox_inv all 256 values in all 16 positions; Shift/InvShiftRows on tag states; Mix/InvMixColumns on every single-active-byte state and two-active-byte states over {01,02,80,FF}^2; DES IP/IPinv, Serpent _IP/_FP, _L/_Linv on single-bit family + patterns; Serpent _S/_Sinv 8 boxes x 32 positions x 16 values; rol/ror every width 1..10 (thorough 12) x amount x value and widths 28,32,64,128 x every amount x single-bit family; Salsa/ChaCha index maps'),
    ]


ASSUMPTIONS = ['no reference model: the verdict is purely differential (composition equals identity)',
               'cipher keys/blocks are the classical variable-key / variable-text families, component domains are complete where stated']
