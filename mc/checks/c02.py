"""C02 - AES, DES/TDEA, Serpent and Threefish encrypt exactly as standardized; sizes outside the
standard are rejected; gmul is multiplication in GF(2^8)."""
from mc.engine import Sub, InternalError
from mc.checks.firstuse import firstuse_sub
from mc.common import ramp, expander, single_bits
from mc.checks import cipherfam as F
from mc.refs import blockciphers as R, serpent as RS, skein as RT


def stride(tier):
    return 1 if tier == 'thorough' else 4


# ---- D: component domains ----------------------------------------------------------

def pts_gmul(tier):
    return list(range(256))


def run_gmul(ctx, a):
    from crysp.aes import gmul
    for b in range(256):
        ctx.eq('C02/gmul', ctx.attempt(gmul, a, b), ('ok', R.gf_mul(a, b)))


def spelling_pairs():
    """pairs of different columns whose bytes read the same when written one after the other without padding, in hex
    (1,23 | 12,3) or in decimal, at each of the three adjacent positions"""
    out = []
    for (a1, a2, b1, b2) in ((0x1, 0x23, 0x12, 0x3), (1, 23, 12, 3), (0xa, 0xbc, 0xab, 0xc)):
        for p in range(3):
            A = [0x45, 0x67, 0x89, 0xcd]
            B = list(A)
            A[p], A[p + 1] = a1, a2
            B[p], B[p + 1] = b1, b2
            out.append((A, B))
    return out


def spelling_states():
    sts = []
    for A, B in spelling_pairs():
        for i in range(4):
            for j in range(4):
                if i != j:
                    st = [0x10 * c + r + 0x31 for c in range(4) for r in range(4)]
                    st[4 * i:4 * i + 4] = A
                    st[4 * j:4 * j + 4] = B
                    sts.append(st)
    return sts


def pts_tables(tier):
    return [('aes-mixcolumns-spelling', h) for h in range(4)] + [('aes-sbox',), ('des-sbox',), ('des-perms',), ('des-subkey',)] + [('serpent-sbox', b, h) for b in range(8) for h in range(4)]


def run_tables(ctx, pt):
    what = pt[0]
    from crysp.bits import Bits
    if what == 'aes-mixcolumns-spelling':
        from crysp.aes import AES
        from crysp.poly import Poly
        sts = spelling_states()
        for st in sts[pt[1]::4]:
            for nk in (16, 24, 32):
                key = ramp(nk, 7, 3)
                A = AES(key)
                x = Poly(list(st), 8)
                A.MixColumns(x)
                ctx.eq('C02/aes/MixColumns/columns-with-the-same-unpadded-spelling', list(x.ival), R.mix_columns(st))
                x = Poly(list(st), 8)
                A.InvMixColumns(x)
                ctx.eq('C02/aes/InvMixColumns/columns-with-the-same-unpadded-spelling', list(x.ival), R.mix_columns(st, inv=True))
                if nk != 16 and pt[1] != 0:
                    continue
                # whole cipher: the block for which this state enters the first MixColumns / the first InvMixColumns
                rk, nr = R.aes_expand(key)
                P = bytes(a ^ b for a, b in zip([R.SBOX_INV[v] for v in R.inv_shift_rows(st)], rk[0]))
                ctx.eq('C02/aes%d/enc/columns-with-the-same-unpadded-spelling' % (8 * nk), ctx.attempt(AES(key).enc, P), ('ok', R.aes_enc(key, P)))
                C = bytes(a ^ b for a, b in zip(R.shift_rows([R.SBOX[v ^ k] for v, k in zip(st, rk[nr - 1])]), rk[nr]))
                ctx.eq('C02/aes%d/dec/columns-with-the-same-unpadded-spelling' % (8 * nk), ctx.attempt(AES(key).dec, C), ('ok', R.aes_dec(key, C)))
        return
    if what == 'aes-sbox':
        from crysp.aes import AES
        ctx.eq('C02/aes/sbox-table', list(AES.sboxtable.ival), R.SBOX)
        ctx.eq('C02/aes/inverse-sbox-table', list(AES.sboxinvtable.ival), R.SBOX_INV)
    elif what == 'des-sbox':
        from crysp.des import S
        for n in range(8):
            ctx.eq('C02/des/sbox', [int(S(n, x)) for x in range(64)], R.SB[n])
    elif what == 'des-perms':
        from crysp import des as D
        for name, f, nin, tab in (('IP', D.IP, 64, R.IP_T), ('IPinv', D.IPinv, 64, R.FP_T), ('PC1', D.PC1, 64, R.PC1_T),
                                  ('PC2', D.PC2, 56, R.PC2_T), ('E', D.E, 32, R.E_T), ('P', D.P, 32, R.P_T)):
            for p in range(nin):
                x = Bits([1 if i == p else 0 for i in range(nin)])
                out = f(x)
                ctx.eq('C02/des/permutation-%s' % name, out.bitlist(), [1 if t - 1 == p else 0 for t in tab])
    elif what == 'des-subkey':
        from crysp.des import subkey
        for p in range(56):
            k = Bits([1 if i == p else 0 for i in range(56)])
            cd = 1 << (55 - p)
            c, d = cd >> 28, cd & 0xfffffff
            for r in range(16):
                s = R.SHIFTS[r]
                c = ((c << s) | (c >> (28 - s))) & 0xfffffff
                d = ((d << s) | (d >> (28 - s))) & 0xfffffff
                exp = R._perm((c << 28) | d, 56, R.PC2_T)
                got = ctx.call(subkey, k, r)
                ctx.eq('C02/des/subkey', got.bitlist(), [(exp >> (47 - i)) & 1 for i in range(48)])
    elif what == 'serpent-sbox':
        from crysp import serpent as S
        for box in (pt[1],):
            for pos in range(8 * pt[2], 8 * pt[2] + 8):
                for v in range(16):
                    w = [((v >> t) & 1) << pos for t in range(4)]
                    x = Bits(sum(w[t] << (32 * t) for t in range(4)), 128)
                    for name, f, tabs in (('_S', S._S, RS.SB), ('_Sinv', S._Sinv, RS.SBI)):
                        o = RS.sbox(tabs[box], w)
                        ctx.eq('C02/serpent/sbox%s' % name, ctx.call(f, box, x).ival, sum(o[t] << (32 * t) for t in range(4)))


def pts_tfstates(tier):
    return [(c, s) for c in ('tf256', 'tf512', 'tf1024') for s in range(0, (20 if c == 'tf1024' else 18) + 1)]


def run_tfstates(ctx, pt):
    c, s = pt
    try:
        key, tw, blocks = F.tf_crafted_blocks(c, s)
    except AssertionError as e:
        raise InternalError(str(e))
    o = F.make(c, key, tw)
    for P in blocks:
        C = RT.tf_enc(key, tw, P)
        ctx.eq('C02/%s/enc/internal-state-classes' % c, ctx.attempt(o.enc, P), ('ok', C))
        ctx.eq('C02/%s/dec/internal-state-classes' % c, ctx.attempt(o.dec, C), ('ok', P))


# ---- P: known-answer families -------------------------------------------------------

def pts_kat(tier):
    st = stride(tier)
    pts = []
    for c in F.CIPHERS:
        if c == 'serpent':
            continue
        nk = len(F.keys(c, st))
        nb = len(F.blocks(c, st))
        for i in range(nk):
            pts.append((c, 'varkey', i, st))
        for i in range(nb):
            pts.append((c, 'vartext', i, st))
        if c.startswith('tf'):
            for i in range(len(F.tweaks(st))):
                pts.append((c, 'vartweak', i, st))
    # Serpent: object construction dominates, one point per key
    for i in range(len(F.keys('serpent', st))):
        pts.append(('serpent', 'varkey', i, st))
    for j in range(3):
        pts.append(('serpent', 'vartext', j, st))
    return pts


def judge(ctx, c, key, blk, tweak=None, obj=None):
    o = obj
    if o is None:
        r = ctx.attempt(F.make, c, key, tweak)
        if r[0] != 'ok':
            ctx.eq('C02/%s/construct' % c, r, 'ok')
            return None
        o = r[1]
    ct = F.ref_enc(c, key, blk, tweak)
    ctx.eq('C02/%s/enc' % c, ctx.attempt(o.enc, blk), ('ok', ct))
    ctx.eq('C02/%s/dec' % c, ctx.attempt(o.dec, ct), ('ok', blk))
    # decryption of an arbitrary block (not only of ciphertexts of the chosen plaintexts)
    ctx.eq('C02/%s/dec' % c, ctx.attempt(o.dec, blk), ('ok', F.ref_enc(c, key, blk, tweak, dec=True)))
    return o


def run_kat(ctx, pt):
    c, kind, i, st = pt
    if kind == 'varkey':
        key = F.keys(c, st)[i]
        o = None
        for blk in F.fixed_blocks(c):
            o = judge(ctx, c, key, blk, None, o)
            if o is None:
                break
    elif kind == 'vartext':
        if c == 'serpent':
            key = F.fixed_keys(c)[i]
            o = None
            for blk in F.blocks(c, st):
                o = judge(ctx, c, key, blk, None, o)
            return
        blk = F.blocks(c, st)[i]
        for key in F.fixed_keys(c):
            judge(ctx, c, key, blk)
    else:
        tw = F.tweaks(st)[i]
        for key in F.fixed_keys(c)[1:]:
            for blk in F.fixed_blocks(c)[:2]:
                judge(ctx, c, key, blk, tw)


# ---- Serpent key lengths, TDEA keying forms --------------------------------------------

def pts_forms(tier):
    pts = [('serpent-keylen', kl) for kl in range(1, 33)]
    pts += [('tdea', f, rel) for f in ('K1', 'K1,K2', 'K1,K2,K3', 'str8', 'str16', 'str24') for rel in ('same', 'k1=k3', 'distinct', 'k1=k2')]
    return pts


def run_forms(ctx, pt):
    if pt[0] == 'serpent-keylen':
        from crysp.serpent import Serpent
        kl = pt[1]
        for key in (bytes([0x80] + [0] * (kl - 1)), ramp(kl, 29, kl), expander(kl, 1), b'\0' * kl, b'\xff' * kl):
            r = ctx.attempt(Serpent, key)
            if r[0] != 'ok':
                ctx.eq('C02/serpent/short-key-construct', r, 'ok')
                continue
            for blk in (bytes(16), ramp(16, 13, 1)):
                ctx.eq('C02/serpent/short-key-enc', ctx.attempt(r[1].enc, blk), ('ok', RS.enc(key, blk)))
                ctx.eq('C02/serpent/short-key-dec', ctx.attempt(r[1].dec, blk), ('ok', RS.dec(key, blk)))
        return
    from crysp.des import TDEA
    _, form, rel = pt
    a, b, c = expander(8, 1), expander(8, 2), expander(8, 3)
    k1, k2, k3 = {'same': (a, a, a), 'k1=k3': (a, b, a), 'distinct': (a, b, c), 'k1=k2': (a, a, c)}[rel]
    if form == 'K1':
        if rel != 'same':
            return
        mk = lambda: TDEA(k1)
    elif form == 'K1,K2':
        if rel not in ('same', 'k1=k3'):
            return
        mk = lambda: TDEA(k1, k2)
    elif form == 'K1,K2,K3':
        mk = lambda: TDEA(k1, k2, k3)
    elif form == 'str8':
        if rel != 'same':
            return
        mk = lambda: TDEA(k1)
    elif form == 'str16':
        if rel not in ('same', 'k1=k3'):
            return
        mk = lambda: TDEA(k1 + k2)
    else:
        mk = lambda: TDEA(k1 + k2 + k3)
    r = ctx.attempt(mk)
    K = 'C02/tdea/keying-%s' % form
    if r[0] != 'ok':
        ctx.eq(K + '/construct', r, 'ok')
        return
    for blk in [bytes(8), b'\xff' * 8, ramp(8, 5, 1), expander(8, 4)] + single_bits(8)[2::9]:
        ct = R.tdea_enc(k1, k2, k3, blk)
        ctx.eq(K + '/enc', ctx.attempt(r[1].enc, blk), ('ok', ct))
        ctx.eq(K + '/dec', ctx.attempt(r[1].dec, ct), ('ok', blk))


# ---- rejection of undefined sizes -----------------------------------------------------

def pts_reject(tier):
    pts = []
    for n in (0, 1, 2, 3, 4, 15, 17, 23, 25, 31, 33, 48, 64, 128, 192, 256):      # incl. bit counts taken for byte counts and the reverse
        pts.append(('aes-key', n))
    for c in ('aes128', 'aes256'):
        for n in (0, 1, 2, 15, 17, 24, 32, 48, 128):
            pts.append((c + '-block', n))
    for n in (0, 1, 7, 9, 16, 56, 64):
        pts.append(('des-key', n))
        pts.append(('des-block', n))
        pts.append(('tdea-block', n))
    for n in (9, 12, 15, 17, 23, 25, 32):
        pts.append(('tdea-keystring', n))
    for combo in ((7, 8, 8), (8, 7, 8), (8, 8, 9), (8, 9, None), (9, None, None)):
        pts.append(('tdea-keys',) + combo)
    for n in (33, 48, 64):
        pts.append(('serpent-key', n))
    for n in (0, 2, 15, 17, 32, 128):
        pts.append(('serpent-block', n))
    for n in (0, 4, 8, 16, 31, 33, 48, 63, 65, 96, 127, 129, 256, 512, 1024):
        pts.append(('tf-key', n))
    for n in (0, 2, 8, 15, 17, 32, 128):
        pts.append(('tf-tweak', n))
    for nk in (32, 64, 128):
        for d in (-1, 1, -8, nk, 7 * nk, nk // 8 - nk):      # nk + 7nk = 8nk: the block size in bits taken for a byte count; nk/8: the reverse
            pts.append(('tf-block', nk, nk + d))
    return pts


def must_reject(ctx, key, f):
    """constructing and using the object with an undefined size must raise somewhere"""
    ctx.calls += 1
    try:
        v = f()
    except Exception:
        ctx.cmps += 1
        ctx.obs.add(b'rejected')
        return
    ctx.ok(key, False, ('returned', v), 'an exception')


def run_reject(ctx, pt):
    from crysp.aes import AES
    from crysp.des import DES, TDEA
    from crysp.serpent import Serpent
    from crysp.threefish import Threefish
    t = pt[0]
    if t == 'aes-key':
        must_reject(ctx, 'C02/aes/undefined-key-size-accepted', lambda: AES(ramp(pt[1])).enc(bytes(16)))
    elif t.endswith('-block') and t.startswith('aes'):
        k = ramp(16 if t.startswith('aes128') else 32)
        must_reject(ctx, 'C02/aes/undefined-block-size-accepted', lambda: AES(k).enc(ramp(pt[1], 3, 1)))
        must_reject(ctx, 'C02/aes/undefined-block-size-accepted', lambda: AES(k).dec(ramp(pt[1], 3, 1)))
    elif t == 'des-key':
        must_reject(ctx, 'C02/des/undefined-key-size-accepted', lambda: DES(ramp(pt[1])).enc(bytes(8)))
    elif t == 'des-block':
        must_reject(ctx, 'C02/des/undefined-block-size-accepted', lambda: DES(ramp(8)).enc(ramp(pt[1])))
        must_reject(ctx, 'C02/des/undefined-block-size-accepted', lambda: DES(ramp(8)).dec(ramp(pt[1])))
    elif t == 'tdea-block':
        must_reject(ctx, 'C02/tdea/undefined-block-size-accepted', lambda: TDEA(ramp(8), ramp(8, 3), ramp(8, 5)).enc(ramp(pt[1])))
        must_reject(ctx, 'C02/tdea/undefined-block-size-accepted', lambda: TDEA(ramp(8), ramp(8, 3), ramp(8, 5)).dec(ramp(pt[1])))
    elif t == 'tdea-keystring':
        must_reject(ctx, 'C02/tdea/undefined-key-size-accepted', lambda: TDEA(ramp(pt[1])).enc(bytes(8)))
    elif t == 'tdea-keys':
        ks = [None if n is None else ramp(n, 3, 1) for n in pt[1:]]
        must_reject(ctx, 'C02/tdea/undefined-key-size-accepted', lambda: TDEA(*ks).enc(bytes(8)))
    elif t == 'serpent-key':
        must_reject(ctx, 'C02/serpent/undefined-key-size-accepted', lambda: Serpent(ramp(pt[1])).enc(bytes(16)))
    elif t == 'serpent-block':
        must_reject(ctx, 'C02/serpent/undefined-block-size-accepted', lambda: Serpent(ramp(16)).enc(ramp(pt[1])))
        must_reject(ctx, 'C02/serpent/undefined-block-size-accepted', lambda: Serpent(ramp(16)).dec(ramp(pt[1])))
    elif t == 'tf-key':
        must_reject(ctx, 'C02/threefish/undefined-key-size-accepted', lambda: Threefish(ramp(pt[1]), bytes(16)).enc(ramp(pt[1])))
    elif t == 'tf-tweak':
        must_reject(ctx, 'C02/threefish/undefined-tweak-size-accepted', lambda: Threefish(ramp(32), ramp(pt[1])).enc(ramp(32)))
    elif t == 'tf-block':
        must_reject(ctx, 'C02/threefish/undefined-block-size-accepted', lambda: Threefish(ramp(pt[1]), bytes(16)).enc(ramp(pt[2])))
        must_reject(ctx, 'C02/threefish/undefined-block-size-accepted', lambda: Threefish(ramp(pt[1]), bytes(16)).dec(ramp(pt[2])))


def pts_inter(tier):
    return [(a, b) for a in F.CIPHERS for b in F.CIPHERS]


def run_inter(ctx, pt):
    """two live objects: A is constructed, then B (another cipher / size / key), then both are used, A first"""
    a, b = pt
    ka, kb = F.fixed_keys(a)[1], F.fixed_keys(b)[2]
    ta, tb = ramp(16, 3, 7), expander(16, 9)
    A = F.make(a, ka, ta)
    B = F.make(b, kb, tb)
    for (c, o, k, t) in ((a, A, ka, ta), (b, B, kb, tb), (a, A, ka, ta)):
        blk = F.fixed_blocks(c)[2]
        tw = t if c.startswith('tf') else None
        ct = F.ref_enc(c, k, blk, tw)
        ctx.eq('C02/%s/enc/with-another-live-instance' % c, ctx.attempt(o.enc, blk), ('ok', ct))
        ctx.eq('C02/%s/dec/with-another-live-instance' % c, ctx.attempt(o.dec, ct), ('ok', blk))


def selftest():
    try:
        return {'aes_des_tdea_reference_vs_openssl_kat_blocks': R.selftest(), 'serpent_reference_nessie': RS.selftest(),
                'threefish_skein_reference_vectors': RT.selftest()}
    except AssertionError as e:
        raise InternalError('reference self-test failed: %r' % (e,))


PROP_ = 'C02'


def fu_targets():
    t = {}
    for c in F.CIPHERS:
        key, blk = F.fixed_keys(c)[2], F.fixed_blocks(c)[2]
        t[c + ' enc'] = ((lambda c, key, blk: lambda: F.make(c, key).enc(blk))(c, key, blk), F.ref_enc(c, key, blk))
        t[c + ' dec'] = ((lambda c, key, blk: lambda: F.make(c, key).dec(blk))(c, key, blk), F.ref_enc(c, key, blk, dec=True))
    return t


def subchecks():
    return [firstuse_sub(PROP_, fu_targets, every=2),
        Sub('gmul', pts_gmul, run_gmul, engine='D', bound='all 65536 byte pairs vs carry-less multiplication mod 0x11B'),
        Sub('tables', pts_tables, run_tables, engine='D', chunk=1,
            bound='AES S-box and inverse (256 entries, vs algebraic construction); DES S(n,x) all 8x64 cells; IP/IPinv/PC1/PC2/E/P on every single-bit input; subkey(k,r) r=0..15 on the 56 single-bit k; Serpent _S/_Sinv 8 boxes x 32 positions x 16 values'),
        Sub('threefish-internal-states', pts_tfstates, run_tfstates, engine='P',
            bound='Threefish-256/512/1024 x every subkey injection s = 0..18 (20): blocks computed with the reference so that the state right after injection s has a last word in {0..min(s,3), s-1, s, 2^64-s, 2^64-1, 2^63} or a zero / all-ones first or tweak-carrying word; enc and dec vs reference'),
        Sub('known-answer', pts_kat, run_kat, engine='P', exhaustive=False,
            bound='per cipher: key family (single-bit keys, 254 repeated-byte keys, patterns, DES weak/semi-weak/parity variants, Threefish keys whose parity word is 0,1,3,2^32-1,2^32,2^63-1,2^63,2^64-2,2^64-1, AES/Serpent keys with equal / complementary words) x 3 blocks; 3 keys x block family; Threefish tweak family; enc, dec of the ciphertext and dec of the plaintext block vs reference (quick: every 4th family member)'),
        Sub('key-forms', pts_forms, run_forms, engine='P', bound='Serpent every key length 1..32 bytes x 5 patterns; TDEA every keying form x key relation'),
        Sub('interleaved-instances', pts_inter, run_inter, engine='H',
            bound='every ordered pair of the 9 cipher configurations: A constructed, then B, then A.enc/dec, B.enc/dec, A.enc/dec vs reference'),
        Sub('reject', pts_reject, run_reject, engine='P', bound='key / tweak / block lengths around and away from the defined sizes: must raise'),
    ]


ASSUMPTIONS = ['reference AES/DES/TDEA bound to OpenSSL 3.0 through /verif/kats/blockciphers.json (generated once with tools/gen_kats.py), Serpent to NESSIE vectors, Threefish to the Skein 1.3 vectors, at the start of every run',
               'the key space is covered by the classical variable-key / variable-text / table families plus complete component domains, not by all 2^|K| keys',
               'Serpent with an empty key is not exercised']
