"""C19 - TLSH / Nilsimsa: well-formed reproducible digests, distances behave as distances."""
import itertools
from mc.engine import Sub, InternalError
from mc.checks.firstuse import firstuse_sub
from mc.common import ramp, expander
from mc.refs import lsh as RL

CONFIGS = [(b, w, c) for b in (48, 128, 256) for w in (4, 5, 6, 7, 8) for c in (1, 3)]
CONTENT = {'const': lambda l: b'a' * l, 'two': lambda l: bytes(97 + (i % 2) for i in range(l)),
           'ramp': lambda l: bytes((i * 7 + i // 256) & 255 for i in range(l)), 'text': lambda l: (RL.T0 * 8)[:l],
           'exp': lambda l: expander(l, 1), 'tri': lambda l: bytes((i * i) % 3 + 65 for i in range(l)),
           'blocks': lambda l: bytes(((i // 5) * 37) & 255 for i in range(l))}


def lens(w, tier):
    ls = [0, 1, w - 1, w, 49, 50, 51, 255, 256, 257, 300, 656, 657, 700, 3199, 3200]
    return ls if tier == 'thorough' else [0, 1, w - 1, w, 49, 50, 51, 255, 256, 257, 300, 700]


def mk(cfg):
    from crysp.tlsh import TLSH
    return TLSH(*cfg)


def pts_digest(tier):
    return [(b, w, c, l) for (b, w, c) in CONFIGS for l in lens(w, tier)]


def run_digest(ctx, pt):
    b, w, c, l = pt
    cfg = (b, w, c)
    for name, f in CONTENT.items():
        d = f(l)
        for force in (False, True):
            exp = RL.tlsh(d, b, w, c, force)
            r = ctx.attempt(lambda: mk(cfg)(d, force))
            ctx.shape((b, c, l < 50, l < 256, force, exp is None))
            if b == 48 and l >= 50 and (force or l >= 256) and 18 <= RL.nonzero_buckets(d, b, w) <= 24:
                # 48 buckets with 18..24 non-empty buckets: the published implementations disagree on the gate
                ctx.ok('C19/tlsh/digest', r[0] == 'ok' and (r[1] is None or isinstance(r[1], bytes)), r)
                continue
            if name in ('text', 'two') and not force:
                # the same call on an object that has just refused a short input and has just produced a digest
                def second():
                    o = mk(cfg)
                    o(b'too short to hash, but longer than the window')
                    a = o(d, force)
                    o(RL.T0)
                    return (a, o(d, force))
                ctx.eq('C19/tlsh/reused-object', ctx.attempt(second), ('ok', (exp, exp)) if not (b == 48 and exp is None and 18 <= RL.nonzero_buckets(d, b, w) <= 24) else ctx.attempt(second))
            if exp is None:
                ctx.eq('C19/tlsh/no-digest-for-short-or-uniform-input', r, ('ok', None))
            else:
                ctx.eq('C19/tlsh/digest', r, ('ok', exp))
                if r[0] == 'ok' and r[1] is not None:
                    ctx.eq('C19/tlsh/digest-length', len(r[1]), c + 2 + b // 4)


def pts_lvalue(tier):
    top = 1 << (23 if tier == 'thorough' else 19)
    step = 4096 if tier != 'thorough' else 32768
    return [(a, min(a + step, top)) for a in range(1, top, step)]


def run_lvalue(ctx, pt):
    """the length byte as a function of the data length, on a complete range of lengths (component domain)"""
    import math
    o = mk((128, 5, 1))
    if not (hasattr(o, 'data_len') and hasattr(o, 'l_capturing')):
        ctx.extra['skipped_internal_names_changed'] += 1     # not part of the public API: no verdict rather than a false alarm
        return
    bad = []
    for n in range(pt[0], pt[1]):
        o.data_len = n
        if n <= 656:
            L = math.floor(math.log(n) / math.log(1.5))
        elif n <= 3199:
            L = math.floor(math.log(n) / math.log(1.3) - 8.72777)
        else:
            L = math.floor(math.log(n) / math.log(1.1) - 62.5472)
        got = o.l_capturing()
        ctx.calls += 1
        if got != L & 255:
            bad.append((n, got, L & 255))
    ctx.eq('C19/tlsh/length-byte', bad[:3], [])


def pts_ratio(tier):
    top = 400 if tier == 'thorough' else 200
    return [(q3,) for q3 in range(1, top + 1)]


def run_ratio(ctx, pt):
    """quartile ratios for every pair q <= q3: the bucket array of a live object is set by hand (non-initial state),
    then the digest is finalised; model: floor(100 q / q3) mod 16 in exact integer arithmetic"""
    q3 = pt[0]
    probe = mk((128, 5, 1))
    if not all(hasattr(probe, a) for a in ('a_bucket', 'data_len', 'final', 'digest', 'lsh_code')):
        ctx.extra['skipped_internal_names_changed'] += 1
        return
    swp = lambda x: ((x & 15) << 4) | (x >> 4)
    for cfg in ((128, 5, 1), (48, 4, 3)):
        b = cfg[0]
        cz = b // 4
        for q in range(0, q3 + 1):
            q1, q2 = q, min(q3, q + (q3 - q) // 2)
            o = mk(cfg)
            o.a_bucket = ([q1] * cz + [q2] * cz + [q3] * cz + [q3 + 1] * cz) + [0] * (256 - b)
            o.data_len = 1000
            r = ctx.attempt(lambda: o.final(None) and bytes(o.digest().lsh_code))
            exp_q = ((q1 * 100 // q3) % 16) << 4 | ((q2 * 100 // q3) % 16)
            if q2 == 0:
                continue
            ok = r[0] == 'ok' and r[1] is not None and len(r[1]) == cfg[2] + 2 + cz and r[1][cfg[2] + 1] == exp_q
            ctx.ok('C19/tlsh/quartile-ratio-byte', ok, (q1, q2, q3, r[1][cfg[2] + 1] if r[0] == 'ok' and r[1] else r), exp_q)


def digests(cfg):
    b, w, c = cfg
    out = []
    for l in (50, 256, 300, 700, 1500):
        for name in ('text', 'exp', 'ramp', 'tri'):
            d = RL.tlsh(CONTENT[name](l), b, w, c, True)
            if d is not None:
                out.append(d)
    return sorted(set(out))[:10]


def pts_reload(tier):
    return list(CONFIGS)


def run_reload(ctx, cfg):
    b, w, c = cfg
    hs = digests(cfg)
    n = c + 2 + b // 4
    hs += [bytes(n), b'\xff' * n] + [(1 << i).to_bytes(n, 'big') for i in range(0, 8 * n, 7)]
    swp = lambda x: ((x & 15) << 4) | (x >> 4)
    for h in hs:
        r = ctx.attempt(lambda: mk(cfg).from_hash(h))
        if r[0] != 'ok':
            ctx.eq('C19/tlsh/from_hash', r, 'ok')
            continue
        o = r[1]
        fields = (bytes(o.checksum), o.Lvalue, o.q1_ratio, o.q2_ratio, bytes(o.tmp_code))
        exp = (bytes(swp(x) for x in h[:c]), swp(h[c]), h[c + 1] >> 4, h[c + 1] & 15, bytes(h[c + 2:][::-1]))
        ctx.eq('C19/tlsh/from_hash/fields', fields, exp)
        ctx.eq('C19/tlsh/from_hash/reserialize', ctx.attempt(lambda: bytes(o.digest().lsh_code)), ('ok', h))


def model_distance(x, y, c):
    """TLSH distance on raw digests (paper, section on distance score), with the length field"""
    swp = lambda v: ((v & 15) << 4) | (v >> 4)

    def dm(a, b, n):
        d = abs(a % n - b % n)
        return min(d, n - d)
    diff = 0
    if x[:c] != y[:c]:
        diff += 1
    d = dm(swp(x[c]), swp(y[c]), 256)
    diff += d if d <= 1 else d * 12
    for sh in (4, 0):
        d = dm((x[c + 1] >> sh) & 15, (y[c + 1] >> sh) & 15, 16)
        diff += d if d <= 1 else (d - 1) * 12
    for a, b in zip(x[c + 2:], y[c + 2:]):
        for t in range(4):
            d = abs(((a >> (2 * t)) & 3) - ((b >> (2 * t)) & 3))
            diff += 6 if d == 3 else d
    return diff


def pts_dist(tier):
    return list(CONFIGS)


def run_dist(ctx, cfg):
    from crysp.tlsh import distance
    b, w, c = cfg
    hs = digests(cfg)
    objs = [mk(cfg).from_hash(h) for h in hs]
    # digest objects that come from data: finalized only (digest() never called), and objects that were called
    src = {}
    for l in (50, 256, 300, 700, 1500):
        for name in ('text', 'exp', 'ramp', 'tri'):
            d = RL.tlsh(CONTENT[name](l), b, w, c, True)
            if d is not None:
                src.setdefault(d, CONTENT[name](l))
    fin = [mk(cfg).final(src[h], True) for h in hs]
    called = []
    for h in hs:
        o = mk(cfg)
        o(src[h], True)
        called.append(o)
    for i, x in enumerate(hs):
        for j, y in enumerate(hs):
            r = [ctx.attempt(distance, x, y), ctx.attempt(distance, y, x), ctx.attempt(distance, objs[i], objs[j]),
                 ctx.attempt(distance, objs[i], y), ctx.attempt(distance, x, objs[j]), ctx.attempt(objs[i].distance_to, objs[j]),
                 ctx.attempt(distance, fin[i], fin[j]), ctx.attempt(fin[i].distance_to, fin[j]), ctx.attempt(distance, fin[i], y),
                 ctx.attempt(distance, called[i], called[j]), ctx.attempt(distance, called[i], fin[j]), ctx.attempt(distance, objs[i], fin[j])]
            ok = all(v[0] == 'ok' and isinstance(v[1], int) and not isinstance(v[1], bool) and v[1] >= 0 for v in r)
            ctx.ok('C19/tlsh/distance/non-negative-integer', ok, r)
            if ok:
                ctx.eq('C19/tlsh/distance/symmetric', r[0][1], r[1][1])
                ctx.eq('C19/tlsh/distance/object-vs-bytes', [v[1] for v in r[2:]], [r[0][1]] * 10)
                ctx.eq('C19/tlsh/distance/value', r[0][1], model_distance(x, y, c))
                if i == j:
                    ctx.eq('C19/tlsh/distance/identical-is-zero', r[0][1], 0)


def pts_nil(tier):
    return [('target', t) for t in range(256)] + [('len', t, l) for t in (53, 17) for l in range(0, 40)] + [('dist',)] + \
           ([('huge', (1 << 20) + 64)] if tier == 'thorough' else [('huge', 70000)])


def run_nil(ctx, pt):
    from crysp.nilsimsa import Nilsimsa
    import crysp.nilsimsa as NM
    if pt[0] == 'target':
        t = pt[1]
        for d in (b'abcdefgh', RL.T0[:57], b'ab', expander(100, 3)):
            r = ctx.attempt(lambda: Nilsimsa(t)(d))
            ctx.eq('C19/nilsimsa/digest', r, ('ok', RL.nilsimsa(d, t)))
            if r[0] == 'ok':
                ctx.eq('C19/nilsimsa/digest-length', len(r[1]), 32)
    elif pt[0] == 'huge':
        d = (RL.T0 * (pt[1] // len(RL.T0) + 1))[:pt[1]]          # a very long input through one object (sampled)
        ctx.eq('C19/nilsimsa/digest/very-long-input', ctx.attempt(lambda: Nilsimsa()(d)), ('ok', RL.nilsimsa(d)))
    elif pt[0] == 'len':
        _, t, l = pt
        for d in (RL.T0[:l], ramp(l, 5, 1), b'z' * l):
            ctx.eq('C19/nilsimsa/digest', ctx.attempt(lambda: Nilsimsa(t)(d)), ('ok', RL.nilsimsa(d, t)))
        # text given as str: character codes 0..255 are the byte values (also above 127)
        d = bytes((37 * i + 200) & 255 for i in range(l))
        r = ctx.attempt(lambda: Nilsimsa(t)(d.decode('latin-1')))
        if r[0] == 'ok':
            ctx.eq('C19/nilsimsa/digest/str-input', r, ('ok', RL.nilsimsa(d, t)))
    else:
        ds = [RL.nilsimsa(RL.T0[a:a + n]) for a in (0, 3, 50) for n in (10, 50, 200)] + [bytes(32), b'\xff' * 32]
        for x in ds:
            for y in ds:
                hd = bin(int.from_bytes(x, 'big') ^ int.from_bytes(y, 'big')).count('1')
                ctx.eq('C19/nilsimsa/distance-is-hamming', ctx.attempt(NM.distance, x, y), ('ok', hd))
                ctx.eq('C19/nilsimsa/distance-symmetric', ctx.attempt(NM.distance, y, x), ('ok', hd))


def selftest():
    try:
        return {'tlsh_nilsimsa_models_vs_official_vectors': RL.selftest()}
    except AssertionError as e:
        raise InternalError('reference self-test failed: %r' % (e,))


PROP_ = 'C19'


def fu_targets():
    from crysp.nilsimsa import Nilsimsa
    import crysp.tlsh as TL
    d = CONTENT['text'](700)
    t = {}
    for cfg in ((128, 5, 1), (256, 4, 3), (48, 8, 1), (128, 7, 3)):
        t['tlsh %d-%d-%d' % cfg] = ((lambda cfg: lambda: mk(cfg)(d))(cfg), RL.tlsh(d, cfg[0], cfg[1], cfg[2], False))
    t['tlsh module-instance'] = (lambda: TL.tlsh(d), RL.tlsh(d, 128, 5, 1, False))
    t['nilsimsa 53'] = (lambda: Nilsimsa()(d), RL.nilsimsa(d, 53))
    t['nilsimsa 17'] = (lambda: Nilsimsa(17)(d), RL.nilsimsa(d, 17))
    return t


def subchecks():
    return [firstuse_sub(PROP_, fu_targets, every=2),
        Sub('tlsh-digests', pts_digest, run_digest, engine='P',
            bound='all 30 configurations (buckets x window x checksum length) x length in {0,1,wnd-1,wnd,49,50,51,255,256,257,300,700} (thorough + 656,657,3199,3200) x 7 contents (constant, 2-symbol, 3-symbol, ramp, text, expander, runs) x force: None vs digest of exactly chklen+2+buckets/4 bytes equal to the model; never an exception'),
        Sub('tlsh-length-byte', pts_lvalue, run_lvalue, engine='D',
            bound='l_capturing for every data length 1..2^18 (thorough 2^21) on a live object whose data_len is set by hand'),
        Sub('tlsh-quartile-ratios', pts_ratio, run_ratio, engine='D',
            bound='final() on a live object whose bucket array is set by hand: every pair (q1, q3) with q1 <= q3 <= 200 (thorough 400), q2 midway, 2 configurations; ratio byte == exact floor(100q/q3) mod 16'),
        Sub('tlsh-reload', pts_reload, run_reload, engine='P', bound='per configuration: up to 10 produced digests + zero, all-ones and single-bit digests: from_hash fields and re-serialisation'),
        Sub('tlsh-distances', pts_dist, run_dist, engine='P', bound='per configuration all ordered pairs of up to 10 digests: (bytes,bytes), reversed, (obj,obj), (obj,bytes), (bytes,obj), obj.distance_to: non-negative int, symmetric, equal across forms, zero on identical, equal to the model score'),
        Sub('nilsimsa', pts_nil, run_nil, engine='P', bound='every target 0..255 on 4 inputs; targets {53,17} on every length 0..39 x 3 contents; distances on all pairs of 11 digests vs Hamming distance; one input of 70000 bytes (thorough 1 MiB + 64)'),
    ]


ASSUMPTIONS = ['mc/refs/lsh.py models (TLSH paper/reference formulas, Nilsimsa 0.2.4) bound to the official vectors each run',
               'TLSH with 48 buckets and 18..24 non-empty buckets is not judged beyond "None or bytes": published implementations disagree on that gate']
