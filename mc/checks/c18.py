"""C18 - the white-box DES tables compute exactly DES under the embedded key.
Each generated table network is a 'program' validated against the reference DES."""
from mc.engine import Sub, InternalError, pristine
import importlib, itertools
from mc.common import single_bits, DATA, expander
from mc.checks import cipherfam as F
from mc.refs import blockciphers as R
RDES = R


def keylist(tier):
    ks = [bytes(8), b'\xff' * 8]
    sb = single_bits(8)[2:]
    ks += sb if tier == 'thorough' else sb[::4]
    wk = [bytes.fromhex(h) for h in F.WEAK + F.SEMIWEAK]
    ks += wk if tier == 'thorough' else wk[::2]
    ks += DATA(8)[2:] if tier == 'thorough' else DATA(8)[2:4]
    base = expander(8, 5)
    par = [bytes(b ^ (1 if i == j else 0) for i, b in enumerate(base)) for j in range(8)]
    ks += [base] + (par if tier == 'thorough' else par[::4])
    ks.append(bytes.fromhex('0123456789abcdef'))
    sp = R.des_keys_with_equal_round_keys(0, 15)          # keys whose first and last round keys coincide
    ks += sp[1::(3 if tier == 'thorough' else 40)]
    return ks


def blocklist(tier):
    bl = single_bits(8) + DATA(8)[2:]
    return bl if tier == 'thorough' else bl[:2] + bl[2:66:4] + bl[66:]


NCH = 4


def pts(tier):
    return [(k, ch, tier) for k in keylist(tier) for ch in range(NCH)]


_static = {}


def build(ctx, key):
    from crysp.bits import Bits
    from crysp import wb
    bK = Bits(key, 64)
    KT = []
    for r in range(16):
        s, t = ctx.call(wb.table_rKT, r, bK)
        KT.append(t)
    M1 = ctx.call(wb.table_M1)
    M2 = ctx.call(wb.table_M2)[0]
    M3 = ctx.call(wb.table_M3)
    return KT, M1, M2, M3


def run(ctx, pt):
    from crysp import wb
    from crysp.des import DES
    key, ch, tier = pt
    # tables of two neighbouring keys (one effective key bit / one parity bit away) are generated first in the same
    # process: the program under test must not inherit anything from them
    build(ctx, bytes([key[0] ^ 0x80]) + key[1:])
    build(ctx, key[:7] + bytes([key[7] ^ 0x01]))
    KT, M1, M2, M3 = build(ctx, key)
    if ch == 0:
        ok = (len(KT) == 16 and all(len(kt) == 12 for kt in KT) and
              all(isinstance(t, tuple) and len(t) == 256 and all(isinstance(v, int) and 0 <= v <= 255 for v in t) for kt in KT for t in kt))
        ctx.ok('C18/tbox-not-a-total-byte-map', ok, [[len(t) for t in kt] for kt in KT][:2])
        ctx.ok('C18/M1-shape', len(M1) == 96 and all(0 <= int(i) < 64 for i in M1), list(M1)[:8])
        ctx.ok('C18/M2-shape', len(M2) == 96 and all(0 <= int(v) < (1 << 96) for v in M2), len(M2))
        ctx.ok('C18/M3-shape', len(M3) == 64 and all(0 <= int(i) < 96 for i in M3), list(M3)[:8])
        # key independence: same tables for another key and for a repeated call
        ref = ([int(i) for i in wb.table_M1()], [int(v) for v in wb.table_M2()[0]], [int(i) for i in wb.table_M3()])
        ctx.eq('C18/key-independent-tables-differ', ([int(i) for i in M1], [int(v) for v in M2], [int(i) for i in M3]), ref)
        ctx.eq('C18/key-independent-tables-differ', ref, STATIC())
    W = wb.WhiteDES(KT, M1, M2, M3)
    D = DES(key)
    bl = blocklist(tier)
    for b in bl[ch::NCH]:
        exp = R.des_enc(key, b)
        ctx.eq('C18/whitebox-enc-vs-FIPS46-3', ctx.attempt(W.enc, b), ('ok', exp))
        ctx.eq('C18/library-des-vs-FIPS46-3', ctx.attempt(D.enc, b), ('ok', exp))


def pts_states(tier):
    ks = [bytes.fromhex('0123456789abcdef'), expander(8, 5)]
    return [(k, rnd) for k in ks for rnd in range(1, 17)]


def run_states(ctx, pt):
    """blocks chosen (with the reference DES) so that the internal state after round `rnd` is all-zero, all-ones, a single
    bit or has one zero half: value classes of the 96-bit white-box state that no block family reaches by chance"""
    from crysp import wb
    key, rnd = pt
    KT, M1, M2, M3 = build(ctx, key)
    W = wb.WhiteDES(KT, M1, M2, M3)
    F32 = 0xffffffff
    for (L, R) in ((0, 0), (F32, F32), (0, F32), (F32, 0), (0, 0x08000000), (1, 0), (0, 1), (0x80000000, 0), (0, 0x80000000), (0x12345678, 0)):
        b = R.des_block_reaching(key, rnd, L, R) if False else RDES.des_block_reaching(key, rnd, L, R)
        ctx.eq('C18/whitebox-enc-vs-FIPS46-3/internal-state-classes', ctx.attempt(W.enc, b), ('ok', RDES.des_enc(key, b)))


def pts_manyblocks(tier):
    return [(0,)] if tier == 'thorough' else []


def run_manyblocks(ctx, pt):
    """one WhiteDES object encrypts more than 1024 distinct blocks and then the first ones again (sampled, thorough only)"""
    from crysp import wb
    key = expander(8, 9)
    KT, M1, M2, M3 = build(ctx, key)
    W = wb.WhiteDES(KT, M1, M2, M3)
    blocks = [(i * 0x9e3779b97f4a7c15 & ((1 << 64) - 1)).to_bytes(8, 'big') for i in range(1040)]
    for i, b in enumerate(blocks + blocks[:8]):
        r = ctx.attempt(W.enc, b)
        if i % 64 == 0 or i >= 1020:
            ctx.eq('C18/whitebox-enc-vs-FIPS46-3/many-blocks-on-one-object', r, ('ok', RDES.des_enc(key, b)))


ORDER_KEYS = [bytes.fromhex('133457799bbcdff1'), expander(8, 11)]


def pts_roundorder(tier):
    return [(ki, r1, tier) for ki in range(len(ORDER_KEYS) if tier == 'thorough' else 1) for r1 in range(16)]


def run_roundorder(ctx, pt):
    """the sixteen round tables of one key requested in any order: every sequence of two rounds (thorough: of three), each
    on a freshly loaded module; the table of a round does not depend on which rounds were generated before it.  Expected
    tables: the ones generated in the order 0..15 by a forked child (the order the `programs` subcheck validates against DES)."""
    from crysp.bits import Bits
    from crysp import wb
    ki, r1, tier = pt
    key = ORDER_KEYS[ki]

    def inorder():
        from crysp import wb as W
        bK = Bits(key, 64)
        return [W.table_rKT(r, bK)[1] for r in range(16)]
    ref = pristine(inorder)
    if not (isinstance(ref, list) and len(ref) == 16):
        raise InternalError('in-order tables could not be generated: %r' % (ref,))
    third = list(range(16)) if tier == 'thorough' else [0, 1, 2, 3, 7, 15]

    def norm(v):
        return tuple(tuple(int(x) for x in row) for row in v)
    refS = pristine(lambda: [norm(importlib.import_module('crysp.wb').table_rKS(r, Bits(key, 64))) for r in range(16)])
    for r2 in range(16):
        for r3 in [None] + (third if (tier == 'thorough' or (r1 in third and r2 in third)) else []):
            for kinds in (('T', 'T', 'T'), ('S', 'T', 'T'), ('T', 'S', 'T'), ('S', 'S', 'T')) if r3 is None or tier == 'thorough' else (('T', 'T', 'T'), ('T', 'S', 'T')):
                W = importlib.reload(wb)
                bK = Bits(key, 64)
                seq = [(kd, r) for kd, r in zip(kinds, (r1, r2, r3)) if r is not None]
                if r3 is None:
                    seq = [(kinds[0], r1), (kinds[1], r2)] + ([('T', r2)] if kinds[1] == 'S' else [])
                got = [ctx.attempt(lambda: W.table_rKT(r, bK)[1]) if kd == 'T' else (lambda v: (v[0], norm(v[1])) if v[0] == 'ok' else v)(ctx.attempt(W.table_rKS, r, bK)) for kd, r in seq]
                ctx.eq('C18/round-tables-depend-on-the-order-of-generation', got, [('ok', ref[r] if kd == 'T' else refS[r]) for kd, r in seq])
    # and whole networks built in unusual orders, run against DES
    if r1 == 0:
        orders = [list(reversed(range(16))), list(range(0, 16, 2)) + list(range(1, 16, 2)), list(range(1, 16, 2)) + list(range(0, 16, 2)),
                  [0, 5, 10, 15, 1, 6, 11, 2, 7, 12, 3, 8, 13, 4, 9, 14]]
        for od in orders:
            W = importlib.reload(wb)
            bK = Bits(key, 64)
            KT = [None] * 16
            for r in od:
                KT[r] = W.table_rKT(r, bK)[1]
            net = W.WhiteDES(KT, W.table_M1(), W.table_M2()[0], W.table_M3())
            for b in (expander(8, 8), bytes(8)):
                ctx.eq('C18/whitebox-enc-vs-FIPS46-3/tables-generated-out-of-order', ctx.attempt(net.enc, b), ('ok', RDES.des_enc(key, b)))


def pts_samestate(tier):
    return [(ki, si) for ki in range(2) for si in range(4)]


def run_samestate(ctx, pt):
    """one WhiteDES object encrypts 16 blocks chosen (with the reference DES) so that the SAME internal (L,R) state is reached
    after round 1, 2, .. 16: what the network does with a state must not depend on having seen it at another round"""
    from crysp import wb
    ki, si = pt
    key = ORDER_KEYS[ki]
    L, R = ((0x01234567, 0x89abcdef), (0, 0), (0xffffffff, 0), (0x80000000, 1))[si]
    KT, M1, M2, M3 = build(ctx, key)
    W = wb.WhiteDES(KT, M1, M2, M3)
    order = list(range(1, 17)) if si % 2 == 0 else [9, 3, 16, 1, 12, 5, 8, 2, 15, 4, 11, 6, 14, 7, 13, 10]
    for rnd in order + order[:3]:
        b = RDES.des_block_reaching(key, rnd, L, R)
        ctx.eq('C18/whitebox-enc-vs-FIPS46-3/same-internal-state-at-several-rounds', ctx.attempt(W.enc, b), ('ok', RDES.des_enc(key, b)))


def pts_inplace(tier):
    return [(0,), (1,)]


def run_inplace(ctx, pt):
    """the caller reuses one Bits key object, overwriting it in place between two table generations"""
    from crysp.bits import Bits
    from crysp import wb
    k1, k2 = (bytes.fromhex('0123456789abcdef'), expander(8, 6)) if pt[0] == 0 else (expander(8, 7), bytes.fromhex('8123456789abcdef'))
    bK = Bits(k1, 64)
    KT = [ctx.call(wb.table_rKT, r, bK)[1] for r in range(16)]
    W1 = wb.WhiteDES(KT, wb.table_M1(), wb.table_M2()[0], wb.table_M3())
    b = expander(8, 8)
    ctx.eq('C18/whitebox-enc-vs-FIPS46-3', ctx.attempt(W1.enc, b), ('ok', RDES.des_enc(k1, b)))
    bK[0:64] = Bits(k2, 64)
    KT = [ctx.call(wb.table_rKT, r, bK)[1] for r in range(16)]
    W2 = wb.WhiteDES(KT, wb.table_M1(), wb.table_M2()[0], wb.table_M3())
    ctx.eq('C18/whitebox-enc-vs-FIPS46-3/key-object-overwritten-in-place', ctx.attempt(W2.enc, b), ('ok', RDES.des_enc(k2, b)))
    ctx.eq('C18/whitebox-enc-vs-FIPS46-3', ctx.attempt(W1.enc, b), ('ok', RDES.des_enc(k1, b)))


def STATIC():
    """the key-independent tables as generated once in this process (under the all-zero key)"""
    if 's' not in _static:
        from crysp import wb
        _static['s'] = ([int(i) for i in wb.table_M1()], [int(v) for v in wb.table_M2()[0]], [int(i) for i in wb.table_M3()])
    return _static['s']


def selftest():
    try:
        return {'des_reference_vs_openssl_kat_blocks': R.selftest()}
    except AssertionError as e:
        raise InternalError('reference self-test failed: %r' % (e,))


def subchecks():
    return [Sub('internal-states', pts_states, run_states, engine='P', exhaustive=False, chunk=1,
                bound='2 keys x every round 1..16 x 10 internal (L,R) states (zero, all-ones, one zero half, single bits): the block reaching that state is computed with the reference DES and encrypted by the table network'),
            Sub('many-blocks', pts_manyblocks, run_manyblocks, engine='H', exhaustive=False, chunk=1, bound='thorough only: 1040 distinct blocks through one WhiteDES object, then the first 8 again'),
            Sub('same-state-at-several-rounds', pts_samestate, run_samestate, engine='H', chunk=1,
                bound='2 keys x 4 internal (L,R) states: one WhiteDES object encrypts the 16 blocks that reach that state after round 1..16 (two orders), then three of them again'),
            Sub('round-order', pts_roundorder, run_roundorder, engine='H', chunk=1,
                bound='1 key (thorough 2): every sequence of two round numbers and every sequence of three over {0,1,2,3,7,15} (thorough: all 4096), with table_rKT and direct table_rKS calls mixed (4 patterns), each on a freshly loaded module: the tables equal the ones generated in the order 0..15; 4 whole networks generated in reversed / even-odd / odd-even / strided order vs DES'),
            Sub('key-object-reuse', pts_inplace, run_inplace, engine='H', chunk=1, bound='tables generated from one Bits key object that is overwritten in place with another key between two generations'),
            Sub('programs', pts, run, engine='P', exhaustive=False, chunk=1,
                bound='one generated table network per key: 64 single-bit keys (incl. the 8 parity bits), zero, all-ones, 4 weak + 12 semi-weak keys, patterns, 8 parity-only variants (quick: 37 keys); each run on the 64 single-bit blocks, zero, all-ones and 4 patterns (quick: 22 blocks); structure of every table; M1/M2/M3 identical across keys and calls; each program is generated right after the programs of two neighbouring keys (one key bit / one parity bit away)')]


ASSUMPTIONS = ['reference DES (mc/refs/blockciphers.py) bound to OpenSSL through /verif/kats/blockciphers.json',
               'keys and blocks are enumerated families, not all 2^64 x 2^64']
