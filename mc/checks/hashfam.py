"""hash objects of the library and their references, shared by C13 / C14 / C10"""
import hashlib
from mc.refs import mdsha, blake as RB

MD = ['md4', 'md5', 'sha0', 'sha1', 'sha224', 'sha256', 'sha384', 'sha512', 'sha512_224', 'sha512_256']
BLAKES = ['blake224', 'blake256', 'blake384', 'blake512']
BLAKE2 = ['blake2s', 'blake2b']


def blocklen(a):
    if a in ('sha384', 'sha512', 'sha512_224', 'sha512_256', 'blake384', 'blake512', 'blake2b'):
        return 128
    return 64


def lenfield(a):
    """bytes of the length field in the padding (0 for BLAKE2)"""
    if a in BLAKE2:
        return 0
    return 16 if blocklen(a) == 128 else 8


def make(a):
    from crysp.sha import SHA1, SHA2
    from crysp.md import MD4, MD5
    from crysp.blake import Blake, Blake2
    return {'md4': MD4, 'md5': MD5, 'sha0': lambda: SHA1(0), 'sha1': SHA1, 'sha224': lambda: SHA2(224),
            'sha256': lambda: SHA2(256), 'sha384': lambda: SHA2(384), 'sha512': lambda: SHA2(512),
            'sha512_224': lambda: SHA2(512, 224), 'sha512_256': lambda: SHA2(512, 256),
            'blake224': lambda: Blake(224), 'blake256': lambda: Blake(256), 'blake384': lambda: Blake(384), 'blake512': lambda: Blake(512),
            'blake2s': lambda: Blake2(256), 'blake2b': lambda: Blake2(512)}[a]()


def ref(a, m):
    if a in ('md4', 'sha0'):
        return mdsha.md_hash(a, m)
    if a in MD:
        return hashlib.new(a, m).digest()
    if a in BLAKES:
        return RB.blake(int(a[5:]), m)
    if a == 'blake2s':
        return hashlib.blake2s(m).digest()
    return hashlib.blake2b(m).digest()


def selftest():
    return {'mdsha': mdsha.selftest(), 'blake': RB.selftest()}
