"""C06 - Salsa20, ChaCha, RC4: specified keystream, length-preserving XOR streams, one continuous RC4 stream."""
import struct
from mc.engine import Sub, HSystem, hsub, InternalError
from mc.checks.firstuse import firstuse_sub
from mc.common import ramp, expander, single_bits, DATA, xor
from mc.refs import stream as RS

LENS = [0, 1, 63, 64, 65, 127, 128, 129, 191, 192, 193, 319, 320, 321, 577, 1088]


def mk(cipher, key, rounds):
    from crysp.bits import Bits
    from crysp.salsa20 import Salsa20
    from crysp.chacha import Chacha
    return (Salsa20 if cipher == 'salsa20' else Chacha)(Bits(key, bitorder=1), rounds)


def nv(nonce):
    from crysp.bits import Bits
    return Bits(nonce, bitorder=1)


def blockf(cipher):
    return RS.salsa_block if cipher == 'salsa20' else RS.chacha_block


def pts_rounds(tier):
    pts = []
    for c in ('salsa20', 'chacha'):
        for ks in (16, 32):
            for rounds in range(2, 21, 2):
                for kk in (0, 1):
                    for nk in (0, 1):
                        if tier == 'quick' and (kk != nk or (rounds not in (2, 8, 12, 20) and ks == 16)):
                            continue
                        pts.append((c, ks, rounds, kk, nk))
    return pts


def run_rounds(ctx, pt):
    c, ks, rounds, kk, nk = pt
    key = ramp(ks, 7, 1) if kk == 0 else expander(ks, 1)
    nonce = bytes(8) if nk == 0 else expander(8, 2)
    K = 'C06/' + c
    outs = {}
    full = expander(LENS[-1], 3)
    for L in LENS:
        M = full[:L]
        r = ctx.attempt(lambda: mk(c, key, rounds).enc(nv(nonce), M))
        exp = RS.stream(blockf(c), key, nonce, rounds, M)
        ctx.shape((c, ks, rounds, L % 64 == 0, L // 64))
        ctx.eq(K + '/enc', r, ('ok', exp))
        if r[0] == 'ok':
            outs[L] = r[1]
            ctx.eq(K + '/length', len(r[1]), L)
            ctx.eq(K + '/dec-of-enc', ctx.attempt(lambda: mk(c, key, rounds).dec(nv(nonce), r[1])), ('ok', M))
    for a in outs:
        for b in outs:
            if a <= b:
                ctx.eq(K + '/prefix', outs[a], outs[b][:a])


def pts_keys(tier):
    st = 1 if tier == 'thorough' else 8
    pts = []
    for c in ('salsa20', 'chacha'):
        for ks in (16, 32):
            fam = single_bits(ks)
            fam = fam[:2] + fam[2::st]
            for i in range(len(fam)):
                pts.append((c, ks, 'key', i, st))
            fam = single_bits(8)
            fam = fam[:2] + fam[2::(1 if tier == 'thorough' else 4)]
            for i in range(len(fam)):
                pts.append((c, ks, 'nonce', i, 1 if tier == 'thorough' else 4))
    return pts


def run_keys(ctx, pt):
    c, ks, what, i, st = pt
    if what == 'key':
        fam = single_bits(ks)
        key = (fam[:2] + fam[2::st])[i]
        nonce = ramp(8, 3, 9)
    else:
        fam = single_bits(8)
        nonce = (fam[:2] + fam[2::st])[i]
        key = ramp(ks, 5, 3)
    M = expander(65, 4)
    for rounds in (8, 20):
        r = ctx.attempt(lambda: mk(c, key, rounds).enc(nv(nonce), M))
        ctx.eq('C06/%s/enc' % c, r, ('ok', RS.stream(blockf(c), key, nonce, rounds, M)))


def pts_hash(tier):
    fam = single_bits(64) + DATA(64)[2:]
    return list(range(0, len(fam), 1 if tier == 'thorough' else 6))


def run_hash(ctx, i):
    from crysp.salsa20 import Salsa20
    X = (single_bits(64) + DATA(64)[2:])[i]
    exp = struct.pack('<16I', *RS.salsa_core(list(struct.unpack('<16I', X))))
    ctx.eq('C06/salsa20/hash', ctx.attempt(lambda: Salsa20().hash(X)), ('ok', exp))


WORDS = [0, 1, 2, 0x7fffffff, 0x80000000, 0xfffffffe, 0xffffffff, 0x0000ffff, 0xffff0000, 0x01234567]


def pts_qr(tier):
    import itertools
    return [(c, a, b) for c in ('salsa20', 'chacha') for a in range(len(WORDS)) for b in range(len(WORDS))]


def ref_qr(c, y):
    M = 0xffffffff
    rol = RS.rol
    a, b, cc, d = y
    if c == 'salsa20':
        z1 = b ^ rol((a + d) & M, 7)
        z2 = cc ^ rol((z1 + a) & M, 9)
        z3 = d ^ rol((z2 + z1) & M, 13)
        z0 = a ^ rol((z3 + z2) & M, 18)
        return [z0, z1, z2, z3]
    a = (a + b) & M; d = rol(d ^ a, 16); cc = (cc + d) & M; b = rol(b ^ cc, 12)
    a = (a + b) & M; d = rol(d ^ a, 8); cc = (cc + d) & M; b = rol(b ^ cc, 7)
    return [a, b, cc, d]


def run_qr(ctx, pt):
    """the exposed quarter-round on every 4-tuple over a boundary word alphabet (words that are 0, all-ones, top bit, ...)"""
    from crysp.poly import Poly
    from crysp.salsa20 import Salsa20
    from crysp.chacha import Chacha
    c, ia, ib = pt
    o = Salsa20() if c == 'salsa20' else Chacha()
    for wc in WORDS:
        for wd in WORDS:
            y = [WORDS[ia], WORDS[ib], wc, wd]
            r = ctx.attempt(lambda: [int(v) for v in o.quarterround(Poly(y, 32)).ival])
            ctx.eq('C06/%s/quarterround' % c, r, ('ok', ref_qr(c, y)))
    # whole double rounds / core on states made of boundary words
    for shift in range(0, len(WORDS), 3):
        x = [WORDS[(ia + ib * 3 + i * 7 + shift) % len(WORDS)] for i in range(16)]
        exp = (RS.salsa_core if c == 'salsa20' else RS.chacha_core)(x, 2)
        r = ctx.attempt(lambda: [int(v) for v in o.core(Poly(x, 32), dround=1).ival])
        ctx.eq('C06/%s/core-on-boundary-words' % c, r, ('ok', exp))


def pts_carry(tier):
    pts = []
    for c in ('salsa20', 'chacha'):
        for ks in (16, 32):
            for rounds in ((20, 8) if tier == 'thorough' else (20,)):
                for b0 in ((1 << 32) - 2, (1 << 32) - 1, 1 << 32, (1 << 33) - 1, (1 << 48) + 5, (1 << 64) - 2):
                    pts.append((c, ks, rounds, b0))
    return pts


def run_carry(ctx, pt):
    """needs the guarded hook: keystream starts at block index _verif_block0"""
    c, ks, rounds, b0 = pt
    key = expander(ks, 5)
    nonce = expander(8, 6)
    n = 128 if b0 >= (1 << 64) - 2 else 256
    M = expander(n, 7)
    o = mk(c, key, rounds)
    import crysp.salsa20 as S
    if not S._VERIF:
        raise InternalError('hook BDCHT_CRYSP_VERIF is not active')
    o._verif_block0 = b0
    r = ctx.attempt(lambda: o.enc(nv(nonce), M))
    ctx.eq('C06/%s/block-counter-beyond-one-word' % c, r, ('ok', RS.stream(blockf(c), key, nonce, rounds, M, ctr0=b0)))
    # with the hook attribute unset the stream starts at block 0
    o2 = mk(c, key, rounds)
    ctx.eq('C06/%s/enc' % c, ctx.attempt(lambda: o2.enc(nv(nonce), M[:70])), ('ok', RS.stream(blockf(c), key, nonce, rounds, M[:70])))


def pts_longmsg(tier):
    pts = [(c, 65537, 2) for c in ('salsa20', 'chacha')] + [('salsa20', 16385 * 4, 8)]
    if tier == 'thorough':
        pts += [(c, (1 << 21) + 100, 2) for c in ('salsa20', 'chacha')] + [('chacha', (1 << 20) + 1, 2), ('salsa20', 1 << 20, 2)]
    return pts


def run_longmsg(ctx, pt):
    """one enc call on more than 1024 blocks (thorough: more than 2 MiB = 32768 blocks): the block counter runs on"""
    c, n, rounds = pt
    key, nonce = expander(32, 51), expander(8, 52)
    M = (expander(4096, 53) * (n // 4096 + 1))[:n]
    exp = RS.stream(blockf(c), key, nonce, rounds, M)
    r = ctx.attempt(lambda: mk(c, key, rounds).enc(nv(nonce), M))
    ctx.eq('C06/%s/enc/long-message' % c, (r[0], len(r[1]) if r[0] == 'ok' else r[1]), ('ok', n))
    if r[0] == 'ok' and r[1] != exp:
        first = next(i for i in range(n) if r[1][i] != exp[i])
        ctx.fail('C06/%s/enc/long-message' % c, 'reference keystream', 'first wrong byte at offset %d (block %d)' % (first, first // 64))
    ctx.cmps += 1
    if n <= 70000:
        ctx.eq('C06/%s/dec-of-enc/long-message' % c, ctx.attempt(lambda: mk(c, key, rounds).dec(nv(nonce), exp)), ('ok', M))


def equal_word_kats():
    import json, os
    p = os.path.join(os.path.dirname(os.path.dirname(os.path.dirname(os.path.abspath(__file__)))), 'kats', 'stream_equal_words.json')
    return json.load(open(p)) if os.path.exists(p) else []


def pts_eqwords(tier):
    return list(range(len(equal_word_kats())))


def run_eqwords(ctx, pt):
    """nonces (found once, by search) for which keystream block 0 has two equal 32-bit words - a coincidence of probability
    2^-25 per block that no nonce family reaches; the entry is re-verified with the reference before it is used"""
    e = equal_word_kats()[pt]
    c, key, rounds, nonce = e['cipher'], bytes.fromhex(e['key']), e['rounds'], struct.pack('<Q', e['nonce'])
    blk = blockf(c)(key, nonce, 0, rounds)
    w = struct.unpack('<16I', blk)
    a, b = e['equal_words']
    if w[a] != w[b]:
        raise InternalError('stream_equal_words.json entry %d does not have equal words under the reference' % pt)
    M = expander(150, 54)
    ctx.eq('C06/%s/enc/keystream-block-with-two-equal-words' % c, ctx.attempt(lambda: mk(c, key, rounds).enc(nv(nonce), M)), ('ok', RS.stream(blockf(c), key, nonce, rounds, M)))
    ctx.eq('C06/%s/enc/keystream-block-with-two-equal-words' % c, ctx.attempt(lambda: mk(c, key, rounds).enc(nv(nonce), b'')), ('ok', b''))
    g = mk(c, key, rounds).keystream(nv(nonce))
    from crysp.bits import pack
    ctx.eq('C06/%s/keystream/block-with-two-equal-words' % c, ctx.attempt(lambda: b''.join(pack(x) for x in next(g))), ('ok', blk))


# ---- RC4 -----------------------------------------------------------------------------------

def pts_rc4keys(tier):
    pts = [(kl, 'ramp') for kl in range(1, 257)]
    for kl in (1, 5, 16, 255, 256):
        for d in ('zero', 'ff', 'exp'):
            pts.append((kl, d))
    return pts


def run_rc4keys(ctx, pt):
    from crysp.rc4 import RC4
    kl, d = pt
    key = {'ramp': ramp(kl, 13, kl), 'zero': bytes(kl), 'ff': b'\xff' * kl, 'exp': expander(kl, 1)}[d]
    r = ctx.attempt(RC4, key)
    if r[0] != 'ok':
        ctx.eq('C06/rc4/construct', r, 'ok')
        return
    _, S0, _, _ = RS.rc4_full(key, 0)
    ctx.eq('C06/rc4/key-schedule', (list(r[1].S.ival), r[1].i, r[1].j), (S0, 0, 0))
    M = expander(40, 2)
    ctx.eq('C06/rc4/enc', ctx.attempt(r[1].enc, M), ('ok', xor(M, RS.rc4(key, 40))))
    o = RC4(key)
    c = o.enc(M)
    ctx.eq('C06/rc4/dec-of-enc', ctx.attempt(RC4(key).dec, c), ('ok', M))
    ctx.eq('C06/rc4/empty', ctx.attempt(RC4(key).enc, b''), ('ok', b''))


class RC4Sys(HSystem):
    SIZES = (0, 1, 2, 3, 255, 256, 257, 600)

    def __init__(self, key):
        self.key = key

    def fresh(self):
        from crysp.rc4 import RC4
        return {'o': RC4(self.key), 'pos': 0, 'last': None}

    def canon(self, o):
        return (tuple(o['o'].S.ival), o['o'].i, o['o'].j)

    def events(self, o):
        return [('enc', n) for n in self.SIZES] + [('keystream', n) for n in (0, 1, 256)] + [('dec', 5)]

    def apply(self, o, ev):
        n = ev[1]
        m = ramp(o['pos'] + n, 3, 7)[o['pos']:]
        o['last'] = (o['pos'], m)
        o['pos'] += n
        if ev[0] == 'enc':
            return o['o'].enc(m)
        if ev[0] == 'dec':
            return o['o'].dec(m)
        return bytes(o['o'].keystream(n).ival)

    def judge(self, ctx, hist, ev, res, o):
        pos, m = o['last']
        ks, S, i, j = RS.rc4_full(self.key, pos + len(m))
        exp = xor(m, ks[pos:]) if ev[0] != 'keystream' else ks[pos:]
        ctx.eq('C06/rc4/continuous-stream/%s' % ev[0], res, ('ok', exp))
        if res[0] == 'ok':
            ctx.eq('C06/rc4/continuous-stream/length', len(res[1]), len(m))
        ctx.eq('C06/rc4/continuous-stream/state', self.canon(o), (tuple(S), i, j))


class StreamSys(HSystem):
    depth = {'quick': 4, 'thorough': 5}
    """one Salsa20 / ChaCha object, ONE caller-owned nonce Bits object that is overwritten in place, and keystream
    generators that are held open while other requests run on the same object"""

    def __init__(self, c):
        self.c = c
        self.key = expander(32, 31)
        self.nonces = [expander(8, 32), expander(8, 33)]

    def fresh(self):
        return {'o': mk(self.c, self.key, 8), 'v': nv(self.nonces[0]), 'cur': 0, 'gen': None, 'gnonce': None, 'gnext': 0, 'exp': None}

    def canon(self, o):
        from mc.engine import canon as gcanon
        return (gcanon(o['o']), o['cur'], o['gnonce'], o['gnext'], int(o['v']), o.get('gdirty'))

    def events(self, o):
        return [('enc', 70), ('enc', 3), ('set-nonce-in-place', 0), ('set-nonce-in-place', 1), ('open-generator',), ('next-from-generator',)]

    def ks(self, nonce_i, block0, nblocks):
        return b''.join(blockf(self.c)(self.key, self.nonces[nonce_i], block0 + j, 8) for j in range(nblocks))

    def apply(self, o, ev):
        from crysp.bits import Bits, pack
        if ev[0] == 'set-nonce-in-place':
            o['cur'] = ev[1]
            o['v'][0:64] = Bits(self.nonces[ev[1]], bitorder=1)         # the same Bits object, new value
            o['exp'] = None
            return None
        if ev[0] == 'enc':
            M = expander(ev[1], 34)
            o['exp'] = xor(M, self.ks(o['cur'], 0, (ev[1] + 63) // 64))
            if o['gen'] is not None and o['cur'] != o['gnonce']:
                o['gdirty'] = True      # another nonce went through the object: what the held generator yields next is not specified
            return o['o'].enc(o['v'], M)
        if ev[0] == 'open-generator':
            o['gen'] = o['o'].keystream(nv(self.nonces[o['cur']]))
            o['gnonce'], o['gnext'] = o['cur'], 0
            o['gdirty'] = False
            o['exp'] = None
            return None
        if o['gen'] is None:
            o['exp'] = None
            return None
        blk = next(o['gen'])
        o['exp'] = None if o.get('gdirty') else self.ks(o['gnonce'], o['gnext'], 1)
        o['gnext'] += 1
        return b''.join(pack(w) for w in blk)

    def judge(self, ctx, hist, ev, res, o):
        if o['exp'] is None:
            ctx.eq('C06/%s/stream-history/%s' % (self.c, ev[0]), res[0], 'ok')
        else:
            ctx.eq('C06/%s/stream-history/%s' % (self.c, ev[0]), res, ('ok', o['exp']))


class NonceSys(HSystem):
    """one Salsa20 / ChaCha object used with several nonces whose written forms are related (1, 0x11, 11, 0x101: one is the
    other followed by digits of a block index), messages that reach block 16 and beyond, and requests that are rejected
    for a nonce of the wrong size carrying the same integer value as a valid one"""
    depth = {'quick': 3, 'thorough': 4}
    NONCES = [1, 0x11, 11, 0x101]
    LENGTHS = [3, 17 * 64 + 1]

    def __init__(self, c):
        self.c = c
        self.key = expander(32, 41)

    def fresh(self):
        return {'o': mk(self.c, self.key, 2)}

    def canon(self, o):
        from mc.engine import canon as gcanon
        return gcanon(o['o'])

    def events(self, o):
        return [('enc', i, j) for i in range(len(self.NONCES)) for j in range(len(self.LENGTHS))] + \
               [('rejected', i, sz) for i in range(len(self.NONCES)) for sz in (128, 32)]

    def apply(self, o, ev):
        from crysp.bits import Bits
        v = self.NONCES[ev[1]]
        if ev[0] == 'rejected':
            return o['o'].enc(Bits(v, ev[2]), b'never encrypted')
        return o['o'].enc(Bits(v, 64), expander(self.LENGTHS[ev[2]], 42))

    def judge(self, ctx, hist, ev, res, o):
        if ev[0] == 'rejected':
            return          # a perturbation only: the statement fixes the nonce size but not what happens for another one
        M = expander(self.LENGTHS[ev[2]], 42)
        exp = RS.stream(blockf(self.c), self.key, struct.pack('<Q', self.NONCES[ev[1]]), 2, M)
        ctx.eq('C06/%s/several-nonces-on-one-object' % self.c, res, ('ok', exp))


class RC4Long(RC4Sys):
    """pieces longer than 64 KiB followed by further calls (depth 2)"""
    SIZES = (65537, 7)
    depth = {'quick': 2, 'thorough': 2}

    def events(self, o):
        return [('enc', n) for n in self.SIZES] + [('keystream', 5)]


def systems(tier):
    d = {'salsa20-stream': StreamSys('salsa20'), 'chacha-stream': StreamSys('chacha'), 'key5': RC4Sys(bytes.fromhex('0102030405')), 'key16': RC4Sys(expander(16, 9)), 'key7-long-pieces': RC4Long(b'seven77')}
    d['salsa20-nonces'] = NonceSys('salsa20')
    d['chacha-nonces'] = NonceSys('chacha')
    if tier == 'thorough':
        d['key1'] = RC4Sys(b'\x80')
        d['key256'] = RC4Sys(expander(256, 3))
    return d


def selftest():
    try:
        return {'salsa_chacha_rc4_reference_vectors_and_openssl': RS.selftest()}
    except AssertionError as e:
        raise InternalError('reference self-test failed: %r' % (e,))


PROP_ = 'C06'


def fu_targets():
    from crysp.rc4 import RC4
    M = expander(150, 3)
    t = {}
    for c in ('salsa20', 'chacha'):
        for ks, rounds in ((32, 20), (16, 8), (32, 12)):
            key, nonce = expander(ks, 5), expander(8, 6)
            t['%s %d/%d' % (c, 8 * ks, rounds)] = ((lambda c, key, nonce, rounds: lambda: mk(c, key, rounds).enc(nv(nonce), M))(c, key, nonce, rounds),
                                                  RS.stream(blockf(c), key, nonce, rounds, M))
    t['rc4 key5'] = (lambda: RC4(bytes.fromhex('0102030405')).enc(M), xor(M, RS.rc4(bytes.fromhex('0102030405'), 150)))
    t['salsa20 hash'] = (lambda: mk('salsa20', expander(32, 5), 20).hash(expander(64, 7)), RS.salsa_hash(expander(64, 7)) if hasattr(RS, 'salsa_hash') else None)
    if t['salsa20 hash'][1] is None:
        del t['salsa20 hash']
    return t


def subchecks():
    return [firstuse_sub(PROP_, fu_targets, every=2),
        Sub('rounds-lengths', pts_rounds, run_rounds, engine='P',
            bound='{Salsa20, ChaCha} x key size {128,256} x rounds {2,4,..,20} x 2 keys x 2 nonces (quick: subset) x |M| in {0,1,63,64,65,127,128,129,191,192,193,319,320,321,577,1088}: enc vs reference, length, dec(enc), prefix property for every ordered pair of lengths'),
        Sub('keys-nonces', pts_keys, run_keys, engine='P', exhaustive=False,
            bound='rounds {8,20}: single-bit key family of each size (quick: every 8th) and single-bit nonce family (quick: every 4th), |M|=65'),
        Sub('salsa-core', pts_hash, run_hash, engine='P', exhaustive=False, bound='Salsa20().hash on the 512-bit single-bit family + patterns (quick: every 6th)'),
        Sub('quarter-rounds', pts_qr, run_qr, engine='D',
            bound='Salsa20 and ChaCha quarterround on every 4-tuple over the 10-word boundary alphabet {0,1,2,2^31-1,2^31,2^32-2,2^32-1,0000ffff,ffff0000,01234567} (10^4 each); one double round + feed-forward on 4 states of boundary words per point'),
        Sub('long-messages', pts_longmsg, run_longmsg, engine='P', exhaustive=False, chunk=1,
            bound='one enc call on 65537 bytes (Salsa20/2, ChaCha/2) and 65540 bytes (Salsa20/8); thorough: 2 MiB + 100 bytes for both, 1 MiB and 1 MiB + 1'),
        Sub('equal-keystream-words', pts_eqwords, run_eqwords, engine='P',
            bound='kats/stream_equal_words.json: 2 nonces per (cipher, key size, rounds) in {Salsa20, ChaCha} x {256/20, 256/8, 128/20, 256/12} whose keystream block 0 has two equal words (found by tools/find_equal_words.py, re-verified per run): 150-byte message, empty message, raw keystream block'),
        Sub('counter-carry', pts_carry, run_carry, engine='H',
            bound='via the guarded hook: keystream started at block 2^32-2, 2^32-1, 2^32, 2^33-1, 2^48+5, 2^64-2; 4 (2) blocks vs reference with the 64-bit counter split over two words'),
        Sub('rc4-keys', pts_rc4keys, run_rc4keys, engine='P', bound='every key length 1..256 (ramp) + 3 patterns at {1,5,16,255,256}: key-schedule state, 40 bytes, dec(enc), empty message'),
        hsub('rc4-histories', systems, lambda tier: 3 if tier == 'quick' else 4,
             bound='Salsa20 and ChaCha: one cipher object, one caller-owned nonce object overwritten in place, keystream generators held open across other requests, all sequences to depth 3 (4); one cipher object used with 4 nonces of related written forms (1, 0x11, 11, 0x101) on 3-byte and 18-block messages and with rejected nonces of 128 / 32 bits carrying the same values, depth 3 (4); one RC4 object; events enc(m) |m| in {0,1,2,3,255,256,257,600}, keystream(0/1/256), dec(5 bytes); all sequences to depth 3 for 2 keys (thorough 4 keys), deduplicated by (S,i,j); output = reference stream slice, state = reference state after the consumed total; one more key with a piece of 65537 bytes followed by further calls (depth 2)'),
    ]


ASSUMPTIONS = ['reference Salsa20/ChaCha/RC4 (mc/refs/stream.py) bound to the Salsa20 specification examples, the draft-strombergson ChaCha vectors, RFC 6229 and OpenSSL-generated ChaCha20 (across block 2^32) / RC4 keystreams',
               'hook: BDCHT_CRYSP_VERIF=1 lets keystream() start at block _verif_block0 (add-only, two lines per file)']
