"""C09 - padding: exact message||pad in full blocks, true bit counts, unpad inverts pad."""
import itertools
from mc.engine import Sub, HSystem, hsub
from mc.common import ramp, expander
from mc.refs import padspec as PS

GENERIC = ['none', 'zero', 'iso7816', 'pkcs7', 'x923']
BITGRAN = ('zero', 'iso7816', 'md', 'sha', 'blake')


def make(scheme, B, w=32, hsize=256):
    from crysp import padding as P
    if scheme == 'md':
        return P.MDpadding(B, w)
    if scheme == 'sha':
        return P.SHApadding(B, w)
    if scheme == 'blake':
        return P.Blakepadding(hsize)
    return {'none': P.nopadding, 'zero': P.Nullpadding, 'iso7816': P.bitpadding, 'pkcs7': P.pkcs7, 'x923': P.X923}[scheme](B)


def configs(tier):
    """(scheme, B, w, hsize)"""
    cf = []
    step = 8 if tier == 'thorough' else 8
    sizes = list(range(8, 1025, 8)) if tier == 'thorough' else list(range(8, 257, 8)) + [512, 1016, 1024]
    for s in GENERIC:
        for B in sizes:
            cf.append((s, B, 32, 0))
    for s in ('md', 'sha'):
        for w in (32, 64):
            cs = 2 * w
            for B in ([b for b in range(cs + 8, 1025, 8)] if tier == 'thorough' else
                      sorted({cs + 8, cs + 16, 2 * cs, 512, 1024, 16 * w})):
                cf.append((s, B, w, 0))
    for hs in (224, 256, 384, 512):
        cf.append(('blake', 1024 if hs > 256 else 512, 64 if hs > 256 else 32, hs))
    return cf


def lengths(scheme, B, w):
    blen = B // 8
    cs8 = (2 * w) // 8 if scheme in ('md', 'sha', 'blake') else 0
    if blen <= 8:
        return list(range(0, 3 * blen + 2)) + [k * blen + r for k in (5, 17, 33, 257) for r in range(blen)]
    res = {0, 1, 2, blen - cs8 - 2, blen - cs8 - 1, blen - cs8, blen - cs8 + 1, blen - 2, blen - 1}
    out = set()
    for k in (0, 1, 2, 3, 5, 17):
        for r in res:
            if 0 <= r < blen:
                out.add(k * blen + r)
    return sorted(out)


def pts_pad(tier):
    pts = []
    for (s, B, w, hs) in configs(tier):
        for n in lengths(s, B, w):
            pts.append((s, B, w, hs, n))
    return pts


def drive(ctx, K, pad, M, L, exp, scheme, check_remove=True, extra_kw=None):
    """consume one final iterblocks call, comparing every yielded block and the counters
    read right after it with the specification"""
    kw = {} if L is None else {'bitlen': L}
    got = []
    try:
        ctx.calls += 1
        for blk in pad.iterblocks(M, **kw):
            got.append((bytes(blk), pad.bitcnt))
    except Exception as e:
        got.append(('exc', type(e).__name__))
    ctx.eq(K + '/blocks-and-bit-counters', got, exp)
    return got


def run_pad(ctx, pt):
    s, B, w, hs, n = pt
    blen = B // 8
    K = 'C09/' + s
    M = ramp(n, 7, 3) if n % 2 else expander(n, 1)
    Ls = [None]
    if s in BITGRAN and n > 0:
        Ls += [8 * n - k for k in range(0, 8)]
    for L in Ls:
        if s in ('none', 'zero') and n == 0:
            continue            # an empty message under none/zero padding: one block or none is not fixed by the statement
        if s == 'none' and L is None and False:
            continue
        bl = 8 * n if L is None else L
        if bl == 0:
            continue
        ctx.shape((s, B > 64, n % blen == 0, (bl % 8) != 0, n // blen))
        exp = PS.expected_blocks(s, B, M, bl, w=w, hsize=hs)
        if s == 'none' and n % blen == 0 and exp and exp[-1][0] == b'':
            exp = exp[:-1]
        pad = make(s, B, w, hs)
        got = drive(ctx, K, pad, M, L, exp, s)
        if got != exp:
            continue
        _, padbits, _ = PS.pad_spec(s, B, M, bl, w=w, hsize=hs)
        ctx.eq(K + '/padflag', pad.padflag, True)
        if s in ('zero', 'iso7816', 'pkcs7', 'x923'):
            ctx.eq(K + '/padcnt', pad.padcnt, padbits)
        if s != 'none':
            ctx.ok(K + '/block-length', all(len(b) == blen for b, _ in got), [len(b) for b, _ in got])
        cat = b''.join(b for b, _ in got)
        r = ctx.attempt(pad.remove, cat)
        ctx.eq(K + '/remove', r, ('ok', PS.to_bytes(PS.stream_bits(M, bl), bl)))
        # a second message after the pad is refused
        r = ctx.attempt(lambda: list(pad.iterblocks(M[:blen])))
        ctx.eq(K + '/second-message-after-pad', r, ('exc', 'PaddingError'))
        # containers longer than the bit length
        if L is not None and s in BITGRAN:
            for extra in (1, blen):
                pad2 = make(s, B, w, hs)
                drive(ctx, K + '/longer-container', pad2, M + b'\xa5' * extra, L, exp, s)
    # refusals
    for over in (1, 8, B):
        pad = make(s, B, w, hs)
        r = ctx.attempt(lambda: list(pad.iterblocks(M, bitlen=8 * n + over)))
        ctx.eq(K + '/bitlen-beyond-data', r[0], 'exc')
    if n % blen:
        pad = make(s, B, w, hs)
        r = ctx.attempt(lambda: list(pad.iterblocks(M, padding=False)))
        ctx.eq(K + '/unpadded-partial-block', r[0], 'exc')


# ---- several live pad objects ---------------------------------------------------------------------

def pts_inter(tier):
    cfgs = [('blake', 512, 32, 224), ('blake', 512, 32, 256), ('blake', 1024, 64, 384), ('blake', 1024, 64, 512),
            ('md', 512, 32, 0), ('sha', 512, 32, 0), ('sha', 1024, 64, 0), ('md', 1024, 64, 0), ('pkcs7', 64, 32, 0), ('x923', 128, 32, 0),
            ('iso7816', 64, 32, 0), ('zero', 128, 32, 0)]
    return [(a, b) for a in cfgs for b in cfgs if a != b]


def run_inter(ctx, pt):
    """pad object A is created, then B (another scheme / geometry / digest size) is created and used, then A is used:
    what A emits may depend on A's own configuration only"""
    a, b = pt
    A = make(a[0], a[1], a[2], a[3])
    Bo = make(b[0], b[1], b[2], b[3])
    for (cfg, o) in ((b, Bo), (a, A)):
        s_, B_, w, hs = cfg
        n = B_ // 8 + 3
        M = expander(n, 3)
        exp = PS.expected_blocks(s_, B_, M, 8 * n, w=w, hsize=hs)
        drive(ctx, 'C09/%s/with-another-live-pad-object' % s_, o, M, None, exp, s_)


# ---- malformed PKCS#7 / X9.23 ------------------------------------------------------

def pts_malformed(tier):
    pts = []
    for s in ('pkcs7', 'x923'):
        for hi in range(256):
            pts.append((s, 1, 1, hi))
            pts.append((s, 1, 2, hi))
            pts.append((s, 2, 2, hi))
        for blen in (3, 4, 8):
            pts.append((s, blen, 0, 0))
        for blen in (3, 4, 8, 16):
            pts.append((s, blen, -1, 0))
    return pts


def run_malformed(ctx, pt):
    from crysp.padding import PaddingError
    s, blen, ln, hi = pt
    pad = make(s, 8 * blen)
    valid = PS.valid_pkcs7 if s == 'pkcs7' else PS.valid_x923
    if ln == -1:
        # input shorter than the pad it announces (not even one block): malformed in every reading of the schemes
        alpha = sorted({0, 1, 2, 3, blen - 1, blen})
        for n in range(1, blen):
            for t in itertools.product(alpha, repeat=min(n, 3)):
                c = (bytes(t[:1]) * (n - min(n, 3))) + bytes(t)
                if not (len(c) < c[-1] <= blen):
                    continue
                try:
                    ctx.calls += 1
                    r = ('ok', pad.remove(c))
                except PaddingError:
                    r = ('PaddingError',)
                except Exception as e:
                    r = ('exc', type(e).__name__)
                ctx.eq('C09/%s/remove-malformed-accepted/input-shorter-than-its-pad' % s, r, ('PaddingError',))
        return
    if ln:
        cases = [bytes([hi])] if ln == 1 else [bytes([hi, lo]) for lo in range(256)]
    else:
        alpha = sorted({0, 1, 2, 3, blen - 1, blen, blen + 1, 255})
        cases = [bytes(t) for nblk in (1, 2) for t in itertools.product(alpha, repeat=blen * nblk)
                 if nblk == 1 or blen <= 3] if blen <= 4 else \
                [bytes(t[:1]) * (blen - 3) + bytes(t) for t in itertools.product(alpha, repeat=3)] + \
                [bytes(t) + bytes([blen]) * 1 for t in itertools.product((0, blen, 1), repeat=blen - 1)]
    for c in cases:
        if len(c) % blen:
            continue
        try:
            ctx.calls += 1
            r = ('ok', pad.remove(c))
        except PaddingError:
            r = ('PaddingError',)
        except Exception as e:
            r = ('exc', type(e).__name__)
        if valid(c, blen):
            ctx.eq('C09/%s/remove-valid' % s, r, ('ok', c[:-c[-1]]))
        else:
            ctx.eq('C09/%s/remove-malformed-accepted' % s, r, ('PaddingError',))


# ---- H: histories of iterblocks calls on one pad object ---------------------------

class PadSys(HSystem):
    """events: ('cont', k) k whole blocks with padding=False; ('final', r) final message of r
    (0, half a block, one block); ('bad-partial',), ('bad-bitlen',) refused requests.
    A refusal or the final call ends the judged part of a history (only 'after' events follow)."""

    def __init__(self, s, B, w=32, hs=256):
        self.s, self.B, self.w, self.hs = s, B, w, hs
        self.blen = B // 8

    def fresh(self):
        return {'pad': make(self.s, self.B, self.w, self.hs), 'fed': b'', 'done': False, 'refused': False, 'pos': 0}

    def canon(self, o):
        p = o['pad']
        return (p.bitcnt, p.padcnt, p.padflag, o['done'], o['refused'])

    def events(self, o):
        if o['refused']:
            return []
        if o['done']:
            return [('after', 0), ('after', 1)]
        return [('cont', 0), ('cont', 1), ('cont', 2), ('final', 0), ('final', 1), ('final', 2), ('bad-partial',), ('bad-bitlen',),
                ('chain', 1, 2), ('chain', 2, 1), ('chain-after-final', 1)]

    def msg(self, o, nbytes):
        m = ramp(o['pos'] + nbytes, 11, 1)[o['pos']:]
        return m

    def apply(self, o, ev):
        p = o['pad']
        t = ev[0]
        out = []
        if t == 'cont':
            m = self.msg(o, ev[1] * self.blen)
            o['last'] = ('cont', m, len(o['fed']))
            o['fed'] += m
            o['pos'] += len(m)
            for b in p.iterblocks(m, padding=False):
                out.append((bytes(b), p.bitcnt))
        elif t == 'final':
            n = {0: 0, 1: self.blen // 2, 2: self.blen}[ev[1]]
            if self.s == 'none' and ev[1] == 1:
                n = self.blen // 2
            m = self.msg(o, n)
            o['last'] = ('final', m, len(o['fed']))
            o['fed'] += m
            o['done'] = True
            for b in p.iterblocks(m):
                out.append((bytes(b), p.bitcnt))
        elif t == 'chain':
            # both calls are made before either result is consumed (e.g. itertools.chain of two iterblocks calls)
            m1 = self.msg(o, ev[1] * self.blen)
            o['pos'] += len(m1)
            n = {0: 0, 1: self.blen // 2, 2: self.blen + self.blen // 2}[ev[2]]
            m2 = self.msg(o, n)
            o['last'] = ('final', m1 + m2, len(o['fed']))
            o['fed'] += m1 + m2
            o['done'] = True
            g1 = p.iterblocks(m1, padding=False)
            g2 = p.iterblocks(m2)
            for g in (g1, g2):
                for b in g:
                    out.append((bytes(b), p.bitcnt))
        elif t == 'chain-after-final':
            m1 = self.msg(o, self.blen // 2)
            o['last'] = ('after',)
            o['fed'] += m1
            o['done'] = True
            g1 = p.iterblocks(m1)
            g2 = p.iterblocks(self.msg(o, self.blen))      # requested before the final block has been produced
            list(g1)
            out = list(g2)                                  # ... but consumed after it: must be refused
        elif t == 'bad-partial':
            o['refused'] = True
            o['last'] = ('refuse',)
            out = list(p.iterblocks(self.msg(o, self.blen + max(1, self.blen // 2)), padding=False))
        elif t == 'bad-bitlen':
            o['refused'] = True
            o['last'] = ('refuse',)
            out = list(p.iterblocks(self.msg(o, self.blen), bitlen=self.B + 8))
        elif t == 'after':
            o['last'] = ('after',)
            out = list(p.iterblocks(self.msg(o, ev[1] * self.blen)))
        return out

    def judge(self, ctx, hist, ev, res, o):
        K = 'C09/history/%s' % self.s
        last = o['last']
        if last[0] == 'refuse':
            ctx.eq(K + '/refused-request-accepted', res[0], 'exc')
            return
        if last[0] == 'after':
            ctx.eq(K + '/call-after-final-block', res, ('exc', 'PaddingError'))
            return
        _, m, before = last
        if last[0] == 'cont':
            exp = [(m[i:i + self.blen], 8 * (before + i + self.blen)) for i in range(0, len(m), self.blen)]
            if not m:
                # an empty continuation consumes nothing: no data may come out and the counters stay
                got = res[1] if res[0] == 'ok' else res
                ctx.ok(K + '/empty-continuation', res[0] == 'ok' and b''.join(b for b, _ in got) == b'' and
                       o['pad'].bitcnt == 8 * before and not o['pad'].padflag, res)
                return
            ctx.eq(K + '/continuation-blocks-and-counters', res, ('ok', exp))
            ctx.eq(K + '/continuation-counter', (o['pad'].bitcnt, o['pad'].padflag), (8 * len(o['fed']), False))
            return
        # final: blocks are the tail of the specification of everything fed so far
        fed = o['fed']
        if self.s in ('none', 'zero') and len(fed) == 0:
            return
        if self.s in ('none',) and len(m) == 0:
            return
        if self.s in ('zero',) and len(m) == 0:
            return      # zero padding of an already complete stream: nothing or one zero block is not fixed
        full = PS.expected_blocks(self.s, self.B, fed, 8 * len(fed), w=self.w, hsize=self.hs)
        skip = before // self.blen
        exp = full[skip:]
        ctx.eq(K + '/final-blocks-and-counters', res, ('ok', exp))


def systems(tier):
    d = {}
    for s in GENERIC:
        d[s + '-32'] = PadSys(s, 32)
    for s, w, B in (('md', 32, 512), ('sha', 32, 512), ('sha', 64, 1024), ('md', 32, 96)):
        d['%s-%d-%d' % (s, w, B)] = PadSys(s, B, w)
    for hs in (224, 256, 384, 512):
        d['blake-%d' % hs] = PadSys('blake', 1024 if hs > 256 else 512, 64 if hs > 256 else 32, hs)
    return d


def subchecks():
    return [
        Sub('pad-unpad', pts_pad, run_pad, engine='P',
            bound='8 schemes x block sizes 8..1024 step 8 (quick: 8..256 step 8 and 512, 1016, 1024; MD/SHA: B>=cs+8, w in {32,64}; BLAKE: 4 digest sizes) x |M| in every residue class near 0, the length-field boundary and the block end, 0..3, 5 and 17 full blocks (every length 0..3B+1 and 5, 17, 33, 257 blocks + every residue when B<=64) x L omitted / every L mod 8 x longer containers; counters read after each block; remove; refusals'),
        Sub('interleaved-objects', pts_inter, run_inter, engine='H',
            bound='every ordered pair of 12 pad configurations (4 BLAKE digest sizes, MD/SHA with both word sizes, PKCS#7, X9.23, ISO, zero): A created, B created and used, then A used; blocks and counters vs the specification'),
        Sub('malformed', pts_malformed, run_malformed, engine='D',
            bound='PKCS#7 and X9.23 remove on every whole-block string for block length 1 (1-2 blocks) and 2 (1 block: all 65536), and on every string over {0,1,2,3,blen-1,blen,blen+1,255} for block length 3 (1-2 blocks), 4 (1 block) and a product family for 8; inputs shorter than the pad length they announce (block lengths 3, 4, 8, 16)'),
        hsub('histories', systems, lambda tier: 4 if tier == 'thorough' else 3,
             bound='one pad object per scheme/geometry; events: continuation of 0/1/2 blocks, final of 0/half/1 block, two refused requests, calls after the final block, two calls made before either is consumed; all histories to depth 3 (thorough 4), deduplicated by (bitcnt,padcnt,padflag)'),
    ]


ASSUMPTIONS = ['empty message under none/zero padding not judged (one block or none is not fixed by the statement)',
               'bit lengths are only given to the bit-granular schemes (zero, ISO 7816-4, MD, SHA, BLAKE)',
               'padcnt judged for zero/ISO/PKCS#7/X9.23 only (the length-strengthening schemes do not define it)',
               'malformed-padding inputs are whole blocks, or shorter than the pad length their last byte announces; exception types other than PaddingError count as a violation only for malformed PKCS#7/X9.23 input']
