"""C13 - HMAC equals RFC 2104 for every hash of the library with a block size, key length and message."""
import hmac as pyhmac
from mc.engine import Sub, HSystem, hsub, InternalError
from mc.checks.firstuse import firstuse_sub
from mc.common import ramp, expander
from mc.checks import hashfam as H0

ALGS = H0.MD + H0.BLAKES + H0.BLAKE2 + ['md6_256']        # every hash class of the library that has a `blocksize`


class _H(object):
    """hashfam extended by MD6-256 (block = 3 x 1024 bits), which the library also gives a block size"""
    MD, BLAKES = H0.MD, H0.BLAKES

    @staticmethod
    def blocklen(a):
        return 384 if a == 'md6_256' else H0.blocklen(a)

    @staticmethod
    def make(a):
        if a == 'md6_256':
            from crysp.md import MD6
            return MD6(256)
        return H0.make(a)

    @staticmethod
    def ref(a, m):
        if a == 'md6_256':
            from mc.refs import md6 as RM
            return RM.md6(256, m, L=0)      # the constructor default of the library is L=0 (sequential)
        return H0.ref(a, m)

    selftest = staticmethod(H0.selftest)


H = _H


def rfc2104(a, key, m):
    if (a in H.MD and a not in ('md4', 'sha0')) or a in H0.BLAKE2:
        return pyhmac.new(key, m, a).digest()
    bl = H.blocklen(a)
    k = H.ref(a, key) if len(key) > bl else key
    k = k.ljust(bl, b'\0')
    return H.ref(a, bytes(x ^ 0x5c for x in k) + H.ref(a, bytes(x ^ 0x36 for x in k) + m))


def keylens(a, tier):
    bl = H.blocklen(a)
    dl = len(H.ref(a, b''))
    if tier == 'thorough':
        return list(range(0, 3 * bl + 1))
    return sorted({0, 1, 2, dl - 1, dl, dl + 1, bl // 2, bl - 2, bl - 1, bl, bl + 1, bl + 2, bl + dl, 2 * bl - 1, 2 * bl, 2 * bl + 1, 3 * bl})


def pts_keys(tier):
    return [(a, kl) for a in ALGS for kl in keylens(a, tier) if not (a == 'md6_256' and kl not in (0, 1, 32, 383, 384, 385, 2 * 384))]      # MD6 (104 rounds, 384-byte blocks) is slow: boundary key lengths in both tiers


def run_keys(ctx, pt):
    from crysp.hmac import HMAC
    a, kl = pt
    bl = H.blocklen(a)
    ctx.shape((a, (kl > bl) - (kl < bl)))
    for key in (ramp(kl, 3, 1), expander(kl, 1)) + ((bytes(kl), b'\xff' * kl, b'\x36' * kl, b'\x5c' * kl) if kl in (1, bl // 2, bl, bl + 1) else ()):
        for m in (b'', b'abc', ramp(bl, 5, 2), expander(bl + 1, 2)) + ((expander(5 * bl - 1, 4),) if kl in (0, 1, bl, bl + 1, 3 * bl) else ()):
            r = ctx.attempt(lambda: HMAC(H.make(a), key)(m))
            cls = 'long-key' if kl > bl else ('block-key' if kl == bl else 'short-key')
            ctx.eq('C13/%s/%s' % (a, cls), r, ('ok', rfc2104(a, key, m)))
            if kl in (0, 1, bl) and m and len(m) <= bl:
                # HMAC serialises its message with bytes(): an object that defines __bytes__ (a crysp Bits, a user class) stands
                # for those bytes, whatever iterating over it would give
                from crysp.bits import Bits

                class Wrapped(object):
                    def __init__(self, b):
                        self.b = b

                    def __bytes__(self):
                        return self.b

                    def __iter__(self):
                        return iter(b'something else entirely')
                for mo in (Bits(m), Wrapped(m)):
                    if bytes(mo) == m:
                        ctx.eq('C13/%s/message-object-with-__bytes__' % a, ctx.attempt(lambda: HMAC(H.make(a), key)(mo)), ('ok', rfc2104(a, key, m)))


class KeySys(HSystem):
    """one HMAC object; events setkey(K) for 4 key classes and a MAC computation"""

    def __init__(self, a):
        self.a = a
        bl = H.blocklen(a)
        self.bufkeys = [ramp(20, 3, 1), expander(20, 5)]
        self.lbufkeys = [ramp(bl + 9, 5, 2), expander(bl + 9, 6)]
        self.keys = {'short': b'key', 'prefix': b'ke', 'exact': ramp(bl, 7, 1), 'long': expander(bl + 9, 3), 'empty': b'', 'long2': ramp(2 * bl, 9, 4)}

    def fresh(self):
        from crysp.hmac import HMAC
        h = H.make(self.a)
        o = HMAC(h, self.keys['short'])
        o(b'a first MAC under the first key')          # histories start from an object that has already been used
        return {'o': o, 'h': h, 'key': 'short', 'buf': bytearray(20), 'lbuf': bytearray(H.blocklen(self.a) + 9)}

    def canon(self, o):
        from mc.engine import canon as gcanon
        return (o['key'], gcanon(o['o']), bytes(o['buf']), bytes(o['lbuf']))

    def events(self, o):
        return [('setkey', k) for k in self.keys] + [('mac', 0), ('mac', 1), ('mac', 2), ('setkey-buf', 0), ('setkey-buf', 1), ('scribble-buf',), ('setkey-long-buf', 0), ('setkey-long-buf', 1), ('setkey-long-bytes', 0),
                                                     ('foreign', 'plain'), ('foreign', 'options'), ('foreign', 'unfinished')]

    def apply(self, o, ev):
        if ev[0] == 'foreign':
            # the caller also uses the hash object it gave to HMAC directly: one-shot, with per-call options, and an
            # update it never finishes.  RFC 2104 defines every later MAC all the same.
            h = o['h']
            if ev[1] == 'plain':
                return h(b'foreign use of the hash object')
            if ev[1] == 'options':
                if self.a in H.BLAKES:
                    return h(b'salted', s=(1 << 127) | 0x1234567)
                return h(b'\xa5\x5a', bitlen=11)
            return h.update(ramp(H.blocklen(self.a) * 2, 3, 8), padding=False)
        if ev[0] == 'setkey-buf':
            # the caller keeps ONE mutable key buffer for the whole history, overwrites it in place and sets it again
            o['buf'][:] = self.bufkeys[ev[1]]
            o['key'] = ('buf', ev[1])
            return o['o'].setkey(o['buf'])
        if ev[0] == 'setkey-long-buf':
            o['lbuf'][:] = self.lbufkeys[ev[1]]
            o['key'] = ('lbuf', ev[1])
            return o['o'].setkey(o['lbuf'])
        if ev[0] == 'setkey-long-bytes':
            o['key'] = ('lbuf', ev[1])
            return o['o'].setkey(bytes(self.lbufkeys[ev[1]]))
        if ev[0] == 'scribble-buf':
            # ... or overwrites it without telling the HMAC object: the key in use must not follow
            o['buf'][:] = b'\xee' * len(o['buf'])
            o['lbuf'][:] = b'\xdd' * len(o['lbuf'])
            return None
        if ev[0] == 'setkey':
            o['key'] = ev[1]
            return o['o'].setkey(self.keys[ev[1]])
        return o['o']([b'message', ramp(H.blocklen(self.a) + 3, 3, 3), b'ymessage'][ev[1]])     # b'key' + b'message' == b'ke' + b'ymessage'

    def judge(self, ctx, hist, ev, res, o):
        if ev[0] == 'mac':
            m = [b'message', ramp(H.blocklen(self.a) + 3, 3, 3), b'ymessage'][ev[1]]
            ctx.eq('C13/%s/mac-after-setkey-sequence' % self.a, res, ('ok', rfc2104(self.a, self.keys[o['key']] if not isinstance(o['key'], tuple) else (self.bufkeys if o['key'][0] == 'buf' else self.lbufkeys)[o['key'][1]], m)))
        elif ev[0] == 'foreign':
            pass                                        # the hash objects themselves are C01 / C11 / C14
        elif ev[0] != 'scribble-buf':
            ctx.eq('C13/%s/setkey' % self.a, res[0], 'ok')


def systems(tier):
    algs = [a for a in ALGS if a != 'md6_256'] if tier == 'thorough' else ['md5', 'sha256', 'blake256', 'blake2s']
    d = {a: KeySys(a) for a in algs}
    for a, sysm in d.items():
        # depth 4 costs 22 times depth 3: the thorough tier affords it for MD5 and keeps depth 3 for the others
        sysm.depth = {'quick': 3, 'thorough': 4 if a == 'md5' else 3}
    return d


def selftest():
    try:
        return H.selftest()
    except AssertionError as e:
        raise InternalError('reference self-test failed: %r' % (e,))


PROP_ = 'C13'


def fu_targets():
    from crysp.hmac import HMAC
    m = expander(150, 3)
    t = {}
    for a in ('md5', 'sha0', 'sha256', 'sha512_224', 'sha384', 'blake224', 'blake512', 'blake2s', 'blake2b'):
        for kn, key in (('short', b'key'), ('long', expander(H.blocklen(a) + 9, 3))):
            t['%s %s-key' % (a, kn)] = ((lambda a, key: lambda: HMAC(H.make(a), key)(m))(a, key), rfc2104(a, key, m))
    return t


def subchecks():
    return [firstuse_sub(PROP_, fu_targets, every=2),
        Sub('key-lengths', pts_keys, run_keys, engine='P',
            bound='17 hashes (MD4, MD5, SHA-0, SHA-1, SHA-224/256/384/512, SHA-512/224, SHA-512/256, BLAKE-224/256/384/512, BLAKE2s, BLAKE2b, MD6-256: every hash class with a block size) x every key length 0..3 blocks (quick: 17 lengths around 0, the digest size, 1, 2 and 3 blocks) x 2 key patterns x 4 messages (empty, 3 bytes, one block, one block+1; 5 blocks-1 at 5 key lengths)'),
        hsub('setkey-histories', systems, lambda tier: 3 if tier == 'quick' else 4, split=lambda tier: 8 if tier == 'quick' else 21,
             bound='one HMAC object per hash (quick: 4 hashes), events setkey(short/exact/long/empty/2 blocks, and a key that is a prefix of another with a message that makes key||message coincide), setkey with one caller-owned bytearray overwritten in place, direct use of the shared hash object by the caller (one-shot, with salt / bit length, an unfinished update), and two MACs, all histories to depth 3 (thorough: depth 4 for MD5, depth 3 for the 15 other hashes), state = (key class, stored key)'),
    ]


ASSUMPTIONS = ['Python hmac+hashlib is RFC 2104 for md5/sha1/sha2; for MD4 and BLAKE the RFC 2104 formula is written out over the reference hashes (mc/refs/mdsha.py, mc/refs/blake.py)']
