"""C04 - Keccak sponge, SHA-3 and SHAKE equal FIPS 202 / the Keccak reference for every input and configuration."""
import hashlib
from mc.engine import Sub, HSystem, hsub, InternalError
from mc.checks.firstuse import firstuse_sub
from mc.common import ramp, expander
from mc.refs import keccak as RK

WIDTHS = (25, 50, 100, 200, 400, 800, 1600)
BIGRATES = (8, 9, 36, 40, 64, 72, 127, 128, 129, 136, 144, 168, 200, 576, 832, 1024, 1027, 1080, 1088, 1096, 1152, 1344, 1536)


def rates(b, tier):
    full = 400 if tier == 'thorough' else 50
    if b <= full:
        return list(range(1, b))
    if tier == 'thorough' and b == 800:
        return sorted(set(range(1, b, 5)) | {r for r in BIGRATES if r < b})
    rs = [r for r in BIGRATES if 0 < r < b]
    if tier == 'quick':
        keep = {100: (9, 40, 64), 200: (40, 127, 136), 400: (9, 144), 800: (129, 576), 1600: (1027, 1088, 576, 136, 1096)}[b]
        rs = [r for r in rs if r in keep]
    return rs


def lengths(r):
    if r <= 64:
        return list(range(0, 2 * r + 3))
    res = {0, 1, 2, 7, 8, 9} | {r - k for k in range(1, 10)}
    return sorted({k * r + x for k in range(3) for x in res if 0 <= x < r})


def mk(b, r, d, native):
    from crysp.keccak import Keccak
    o = Keccak(b=b, r=r, len=d)
    o.duplexing = native
    return o


def msg(kind, n):
    return b'\xff' * n if kind == 0 else expander(n, 2)


def pts_len(tier):
    pts = []
    for b in WIDTHS:
        for r in rates(b, tier):
            for native in (False, True):
                pts.append((b, r, native))
    return pts


def lclass(L, r):
    x = L % r
    return 'pad-overflow-into-extra-block' if x == r - 1 else ('rate-boundary' if x == 0 and L else 'other')


def run_len(ctx, pt):
    b, r, native = pt
    d = r + 1
    K = 'C04/keccak/%s' % ('native' if native else 'nist')
    for L in lengths(r):
        for kind in (0, 1):
            M = msg(kind, (L + 7) // 8)
            ctx.shape((b, r < 8, r % 8 == 0, L // r, lclass(L, r), L % 8 != 0))
            exp = RK.keccak(b, r, M, L, d, nist=not native)
            if L % 8 == 0:
                got = ctx.attempt(lambda: mk(b, r, d, native)(M))
                ctx.eq('%s/rate%s/%s' % (K, '<8' if r < 8 else '', lclass(L, r)), got, ('ok', exp))
            if L > 0:
                got = ctx.attempt(lambda: mk(b, r, d, native)(M, bitlen=L))
                ctx.eq('%s/rate%s/%s' % (K, '<8' if r < 8 else '', lclass(L, r)), got, ('ok', exp))
                if kind == 0 and L % 3 == 0:
                    # second call on an object that already answered a call with another bit length and a per-call rate
                    def second():
                        o = mk(b, r, d, native)
                        o(b'\xa5\x5a\xc3', bitlen=21, r=max(1, r // 2))
                        return o(M, bitlen=L)
                    ctx.eq('%s/reused-object' % K, ctx.attempt(second), ('ok', exp))


def pts_out(tier):
    return [(b, r) for b in WIDTHS for r in rates(b, 'quick' if tier == 'quick' else 'thorough') if tier == 'thorough' or r % 3 == 1 or b > 50]


def run_out(ctx, pt):
    b, r = pt
    for d in sorted({1, 8, r - 1, r, r + 1, 2 * r + 3, 3 * r}):
        if d < 1:
            continue
        for L in (0, r - 2, r + 5):
            if L < 0:
                continue
            M = expander((L + 7) // 8, 3)
            exp = RK.keccak(b, r, M, L, d, nist=False)
            if L:
                got = ctx.attempt(lambda: mk(b, r, d, True)(M, bitlen=L))
            else:
                got = ctx.attempt(lambda: mk(b, r, d, True)(b''))
            ctx.eq('C04/keccak/output-length%s' % ('/several-squeezes' if d > r else ''), got, ('ok', exp))
            if got[0] == 'ok':
                ctx.eq('C04/keccak/output-size', len(got[1]), (d + 7) // 8)


def pts_cont(tier):
    return [(b, r, native) for b in WIDTHS for r in rates(b, 'quick') for native in (False, True) if r >= 2]


def run_cont(ctx, pt):
    b, r, native = pt
    d = min(r, 64)
    for L in sorted({0, 1, 5, 8, 13, r - 1, r, r + 3}):
        if L < 0:
            continue
        M = expander((L + 7) // 8, 4)
        exp = RK.keccak(b, r, M, L, d, nist=not native)
        for extra in ((0, 2) if L else (0, 1, 2)):
            if L == 0 and extra == 0:
                got = ctx.attempt(lambda: mk(b, r, d, native)(b'', bitlen=0))
                ctx.eq('C04/keccak/bitlen-zero', got, ('ok', exp))
                continue
            got = ctx.attempt(lambda: mk(b, r, d, native)(M + b'\xa5' * extra, bitlen=L))
            key = 'bitlen-zero' if L == 0 else ('prefix-of-longer-container' if extra else 'exact-container')
            ctx.eq('C04/keccak/%s' % key, got, ('ok', exp))


def pts_long(tier):
    return [(1600, 1027, 65736, True), (1600, 1531, 65537, False)] + ([(1600, 1088, 70000, False), (800, 129, 16500, True)] if tier == 'thorough' else [])


def run_long(ctx, pt):
    """messages longer than 64 KiB with rates that are not a multiple of 8 (sampled)"""
    b, r, n, native = pt
    M = expander(n, 17)
    L = 8 * n - 3
    exp = RK.keccak(b, r, M, L, 256, nist=not native)
    ctx.eq('C04/keccak/long-message', ctx.attempt(lambda: mk(b, r, 256, native)(M, bitlen=L)), ('ok', exp))
    exp = RK.keccak(b, r, M, 8 * n, 256, nist=not native)
    ctx.eq('C04/keccak/long-message', ctx.attempt(lambda: mk(b, r, 256, native)(M)), ('ok', exp))


def pts_kb(tier):
    if tier == 'thorough':
        ns = list(range(1, 4100))
    else:
        ns = sorted({c + d for c in (1000, 1024, 2000, 2048, 2944, 2992, 3000, 3072, 4000, 4096) for d in (-1, 0, 1)})
    return [(1600, 1088, n) for n in ns] + [(1600, 1027, n) for n in (ns if tier == 'quick' else ns[::7])] + [(200, 40, n) for n in (2999, 3000, 3001)]


def run_kb(ctx, pt):
    """kilobyte-sized messages with a bit length that is not a multiple of 8, on the cheapest widths (every byte count
    1..4099 in thorough): internal buffering of the absorb loop must not depend on where the partial byte falls"""
    b, r, n = pt
    M = expander(n + 1, 23)
    for k in (3, 7):
        L = 8 * n + k
        for native in (False, True):
            exp = RK.keccak(b, r, M, L, 24, nist=not native)
            ctx.eq('C04/keccak/%s/kilobyte-message-with-partial-byte' % ('native' if native else 'nist'),
                   ctx.attempt(lambda: mk(b, r, 24, native)(M, bitlen=L)), ('ok', exp))


def pts_longout(tier):
    return [(1600, 1001), (1600, 1027), (800, 129)] + ([(200, 41), (1600, 1531), (400, 9)] if tier == 'thorough' else [])


def run_longout(ctx, pt):
    """outputs of more than 64 kbit with rates that are not a multiple of 8"""
    b, r = pt
    M = b'long output'
    for d in (65536 + 9, 70001):
        exp = RK.keccak(b, r, M, 8 * len(M), d, nist=True)
        ctx.eq('C04/keccak/output-length/beyond-64-kbit', ctx.attempt(lambda: mk(b, r, d, False)(M)), ('ok', exp))


def pts_fips(tier):
    pts = [('sha3', n, ln) for n in (224, 256, 384, 512) for ln in range(0, 2 * (1600 - 2 * n) // 8 + 2, 1 if tier == 'thorough' else 3)]
    pts += [('sha3', n, ln) for n in (224, 256, 384, 512) for ln in ((1600 - 2 * n) // 8 + k for k in (-2, -1, 0, 1))]
    for v in (128, 256):
        rate = (1600 - 2 * v) // 8
        for ln in range(0, 2 * rate + 2, 1 if tier == 'thorough' else 5):
            pts.append(('shake', v, ln))
        pts += [('shake', v, rate + k) for k in (-2, -1, 0, 1)]
        for ln in (0, 1, rate - 1, rate, rate + 1, 2 * rate):
            pts.append(('shake-out', v, ln))
    for n in (224, 256, 384, 512):
        for ln in (0, 1, 71, 72, 73, 135, 136, 143, 144, 200):
            pts.append(('keccak-singleton', n, ln))
        rate = (1600 - 2 * n) // 8
        for k in (5, 9, 17) + ((33, 65) if tier == 'thorough' else ()):
            for dn in (-1, 0, 1):
                pts.append(('sha3', n, k * rate + dn))
    for v in (128, 256):
        rate = (1600 - 2 * v) // 8
        for k in (5, 9, 17):
            pts.append(('shake', v, k * rate - 1))
            pts.append(('shake', v, k * rate))
    return sorted(set(pts))


def run_fips(ctx, pt):
    kind, n, ln = pt
    M = ramp(ln, 7, 3)
    if kind == 'sha3':
        from crysp.sha import SHA3
        r = ctx.attempt(lambda: SHA3(n)(M))
        ctx.eq('C04/sha3-%d' % n, r, ('ok', hashlib.new('sha3_%d' % n, M).digest()))
    elif kind == 'shake':
        from crysp import sha
        f = sha.SHAKE128 if n == 128 else sha.SHAKE256
        h = hashlib.shake_128 if n == 128 else hashlib.shake_256
        ctx.eq('C04/shake%d' % n, ctx.attempt(f, M, 256), ('ok', h(M).digest(32)))
    elif kind == 'shake-out':
        from crysp import sha
        f = sha.SHAKE128 if n == 128 else sha.SHAKE256
        h = hashlib.shake_128 if n == 128 else hashlib.shake_256
        rate = (1600 - 2 * n) // 8
        for dbytes in (1, rate, rate + 1, 2 * rate + 1):
            ctx.eq('C04/shake%d/output-length' % n, ctx.attempt(f, M, 8 * dbytes), ('ok', h(M).digest(dbytes)))
    else:
        import crysp.keccak as LK
        o = getattr(LK, 'keccak_%d' % n)
        ctx.eq('C04/keccak/module-singleton', ctx.attempt(lambda: o(M)), ('ok', RK.keccak(1600, 1600 - 2 * n, M, 8 * ln, n, nist=True)))


class DuplexSys(HSystem):
    def __init__(self, b, r):
        self.b, self.r = b, r

    def fresh(self):
        from crysp.keccak import Keccak
        return {'o': Keccak(b=self.b, r=self.r, len=self.r), 'ref': RK.Duplex(self.b, self.r), 'exp': None}

    def canon(self, o):
        from mc.engine import canon as gcanon
        return gcanon(o['o'])

    def lanes(self, o):
        S = getattr(o['o'], '_S', None)
        return tuple(l.ival for l in S.lanes) if S is not None else None

    def events(self, o):
        r = self.r
        return [(bl, ol) for bl in sorted({0, 1, r - 2, min(8, r - 2)}) for ol in (1, r)] + [('sponge', 5), ('sponge', r + 3)] + \
               [('sponge-rate', 5), ('sponge-rate', 13), ('set-duplexing', 1), ('set-duplexing', 0), ('set-outlen', 8), ('set-outlen', r)]

    def apply(self, o, ev):
        bl, ol = ev
        if bl == 'set-duplexing':
            o['o'].duplexing = bool(ol)
            o['cfg'] = (bool(ol), o.get('cfg', (False, self.r))[1])
            o['exp'] = None
            return None
        if bl == 'set-outlen':
            o['o'].outlen = ol
            o['cfg'] = (o.get('cfg', (False, self.r))[0], ol)
            o['exp'] = None
            return None
        if bl == 'sponge-rate':
            # a per-call rate (half the object's rate), under the attribute values set last
            nat, d = o.get('cfg', (False, self.r))
            rr = max(2, self.r // 2)
            m = expander((ol + 7) // 8, 11)
            o['exp'] = RK.keccak(self.b, rr, m, ol, d, nist=not nat)
            return o['o'](m, bitlen=ol, r=rr)
        if bl == 'sponge':
            # a plain sponge call (NIST bit order, explicit bit length) between duplex calls: it must neither disturb
            # the duplex state nor be disturbed by it
            nat, d = o.get('cfg', (False, self.r))
            m = expander((ol + 7) // 8, 9)
            o['exp'] = RK.keccak(self.b, self.r, m, ol, d, nist=not nat)
            return o['o'](m, bitlen=ol)
        m = expander((bl + 7) // 8, 5 + bl % 3)
        o['exp'] = o['ref'](RK.bits_native(m, bl), ol)
        if bl == 0:
            return o['o'].duplex(b'', outlen=ol)
        return o['o'].duplex(m, bitlen=bl, outlen=ol)

    def judge(self, ctx, hist, ev, res, o):
        if ev[0] in ('set-duplexing', 'set-outlen'):
            return
        ctx.eq('C04/duplex' if not str(ev[0]).startswith('sponge') else 'C04/keccak/sponge-call-between-duplex-calls', res, ('ok', o['exp']))
        ctx.eq('C04/duplex/state', self.lanes(o) or (0,) * 25, tuple(o['ref'].S))


class RateSys(HSystem):
    """one sponge object whose rate is reconfigured with setrate() between plain calls and calls with a per-call rate"""
    depth = {'quick': 4, 'thorough': 5}

    def __init__(self, b, r, rates):
        self.b, self.r0, self.rates = b, r, rates

    def fresh(self):
        from crysp.keccak import Keccak
        return {'o': Keccak(b=self.b, r=self.r0, len=24), 'r': self.r0, 'exp': None}

    def canon(self, o):
        from mc.engine import canon as gcanon
        return (gcanon(o['o']), o['r'])

    def events(self, o):
        return [('setrate', x) for x in self.rates] + [('call', 13), ('call-rate', self.rates[0]), ('call-rate', self.rates[1]), ('call-rate-raising', self.rates[0])]

    def apply(self, o, ev):
        k, x = ev
        if k == 'setrate':
            o['r'] = x
            o['exp'] = None
            return o['o'].setrate(x)
        m = expander(9, 21)
        if k == 'call':
            o['exp'] = RK.keccak(self.b, o['r'], m, x, 24, nist=True)
            return o['o'](m, bitlen=x)
        if k == 'call-rate':
            o['exp'] = RK.keccak(self.b, x, m, 13, 24, nist=True)
            return o['o'](m, bitlen=13, r=x)
        o['exp'] = 'raises'
        return o['o'](m, bitlen=999, r=x)

    def judge(self, ctx, hist, ev, res, o):
        if ev[0] == 'setrate':
            return
        if o['exp'] == 'raises':
            ctx.eq('C04/keccak/bitlen-beyond-data-accepted', res[0], 'exc')
            return
        ctx.eq('C04/keccak/call-after-rate-reconfigurations', res, ('ok', o['exp']))


def systems(tier):
    geos = [(25, 9), (200, 40), (1600, 1027), (1600, 1088)]
    if tier == 'thorough':
        geos += [(50, 3), (400, 144), (800, 576)]
    d = {'%d-%d' % g: DuplexSys(*g) for g in geos}
    d['rates-200'] = RateSys(200, 40, (16, 72, 100))
    d['rates-1600'] = RateSys(1600, 1088, (576, 1344, 1027))
    return d


def selftest():
    try:
        return {'keccak_reference_vs_hashlib_sha3_shake_and_KATs': RK.selftest()}
    except AssertionError as e:
        raise InternalError('reference self-test failed: %r' % (e,))


PROP_ = 'C04'


def fu_targets():
    import hashlib
    from crysp.keccak import Keccak
    from crysp.sha import SHA3
    import crysp.keccak as KE
    m = expander(150, 3)
    t = {'sha3_%d' % n: ((lambda n: lambda: SHA3(n)(m))(n), hashlib.new('sha3_%d' % n, m).digest()) for n in (224, 256, 384, 512)}
    t['keccak b=200 r=40 bitlen'] = (lambda: Keccak(b=200, r=40, len=64)(m, bitlen=1197), RK.keccak(200, 40, m, 1197, 64, nist=True))
    t['keccak r=1027 bitlen'] = (lambda: Keccak(r=1027, c=573, len=200)(m, bitlen=1003), RK.keccak(1600, 1027, m, 1003, 200, nist=True))
    t['keccak_256 module instance'] = (lambda: KE.keccak_256(m), RK.keccak(1600, 1088, m, 8 * len(m), 256, nist=False))
    return t


def subchecks():
    return [firstuse_sub(PROP_, fu_targets, every=2),
        Sub('lengths', pts_len, run_len, engine='P',
            bound='width b in {25..1600} x every rate 1..b-1 for b<=400 and every 5th rate for b=800 in thorough (quick b<=50; else a list of 2-3 rates per width; thorough: 19 named rates incl. 1027,1536) x both bit orders x every bit length 0..2r+2 (r<=64) or every residue {0,1,2,7,8,9,r-9..r-1} over 0..2 full blocks x 2 data patterns; output r+1 bits (two squeezes); byte call and bitlen call'),
        Sub('output-lengths', pts_out, run_out, engine='P', bound='d in {1,8,r-1,r,r+1,2r+3,3r} at L in {0,r-2,r+5} for the (b,r) above'),
        Sub('containers', pts_cont, run_cont, engine='P',
            bound='L in {0,1,5,8,13,r-1,r,r+3}: exact container, +2 trailing bytes, bitlen=0 with empty and non-empty container; both bit orders'),
        Sub('long-messages', pts_long, run_long, engine='P', exhaustive=False, chunk=1,
            bound='messages of 65736 / 65537 bytes (thorough also 70000, 16500) with rates 1027, 1531 (1088, 129), byte and bit lengths'),
        Sub('kilobyte-bit-lengths', pts_kb, run_kb, engine='P',
            bound='Keccak[1600] r=1088 and r=1027: byte counts around 1000, 1024, 2000, 2048, 2944, 2992, 3000, 3072, 4000, 4096 (thorough: every byte count 1..4099) with 3 and 7 extra bits, both bit orders; Keccak[200] r=40 at 3 sizes'),
        Sub('long-outputs', pts_longout, run_longout, engine='P', exhaustive=False, chunk=1,
            bound='outputs of 65545 and 70001 bits for (b,r) in {(1600,1001),(1600,1027),(800,129)} (thorough + (200,41),(1600,1531),(400,9))'),
        Sub('fips202', pts_fips, run_fips, engine='P',
            bound='SHA3-224/256/384/512 on every byte length 0..2 rate-blocks+1 (quick: every 3rd + the rate boundaries), SHAKE128/256 at 256 bits on every length (quick: every 5th) and 4 output lengths on 6 lengths vs hashlib; module singletons keccak_224..512 on 10 lengths'),
        hsub('duplex', systems, 3, bound='Keccak(b,r) for (25,9),(200,40),(1600,1027),(1600,1088) (+3 in thorough): events duplex(m, bitlen in {0,1,8,r-2}, outlen in {1,r}) two plain sponge calls with a bit length, two sponge calls with a per-call rate, and assignments to the duplexing / outlen attributes; all sequences to depth 3 vs a reference duplex object; state = 25 lanes; two more systems (b=200, b=1600) with setrate(3 rates), a plain call, calls with two per-call rates and a refused call, all sequences to depth 4 (thorough 5)'),
    ]


ASSUMPTIONS = ['hashlib sha3_*/shake_* is FIPS 202; mc/refs/keccak.py (round constants from the LFSR, rho offsets from the (t+1)(t+2)/2 walk) is bound to hashlib on 300 messages and to the b=200 KeccakTools vector each run',
               'NIST mode = duplexing False (last partial byte MSB-first), native = duplexing True (LSB-first); byte-aligned calls are identical in both']
