"""C08 - Bits operators are fixed-width modular algebra touching only addressed bits.
Model: a vector is (n, x), 0 <= x < 2**n, bit i = (x >> i) & 1."""
import itertools
from mc.engine import Sub, HSystem, hsub

P = 'C08'


def B(n, x):
    from crysp.bits import Bits
    return Bits(x, n)


def val(r):
    """observation of a Bits result: (ival, size, payload within mask)"""
    from crysp.bits import Bits
    if isinstance(r, Bits):
        return (r.ival, r.size)
    if isinstance(r, list):
        return [val(x) for x in r]
    return r


def scribble(r):
    """overwrite a returned Bits in place (all bits flipped, one bit wider): results must be independent objects, so this
    may not change any operand, any other result or any later evaluation"""
    from crysp.bits import Bits
    if isinstance(r, Bits):
        try:
            r.size = r.size + 1              # public size setter
            for i in range(r.size):
                r[i] = 1 - r.bit(i)          # public item assignment
        except Exception:
            pass
    elif isinstance(r, list):
        for x in r:
            scribble(x)


def bits_of(n, x):
    return [(x >> i) & 1 for i in range(n)]


def from_bits(bl):
    return sum(b << i for i, b in enumerate(bl))


def W(tier):
    return 9 if tier == 'thorough' else 7


def vecs(w):
    return [(n, x) for n in range(w + 1) for x in range(1 << n)]


# ---- D: unary operators, shifts, rotations, split, extension -----------------

def pts_unary(tier):
    return vecs(W(tier) + 1)


def run_unary(ctx, pt):
    from crysp.bits import Bits
    from crysp.utils.operators import rol, ror
    n, x = pt
    M = (1 << n) - 1
    A = B(n, x)

    def res(key, f, exp):
        r = ctx.attempt(f)
        got = val(r[1]) if r[0] == 'ok' else r
        ctx.eq('C08/%s' % key, got, exp)
        if r[0] == 'ok' and isinstance(r[1], Bits):
            ctx.ok('C08/%s/payload-exceeds-size' % key, r[1].ival <= r[1].mask == M_of(r[1]), (r[1].ival, r[1].mask, r[1].size))
        ctx.ok('C08/%s/operand-mutated' % key, (A.ival, A.size, A.mask) == (x, n, M), (A.ival, A.size, A.mask))
        if r[0] == 'ok' and not key.startswith(('zeroextend', 'signextend', 'extend')):
            scribble(r[1])
            r2 = ctx.attempt(f)
            ctx.eq('C08/%s/result-shared-with-later-evaluation' % key, val(r2[1]) if r2[0] == 'ok' else r2, exp)
            ctx.ok('C08/%s/operand-mutated' % key, (A.ival, A.size, A.mask) == (x, n, M), (A.ival, A.size, A.mask))

    def M_of(b):
        return (1 << b.size) - 1
    res('neg', lambda: -A, ((-x) & M, n))
    r = ctx.attempt(lambda: A + (-A))
    ctx.eq('C08/neg/additive-inverse', val(r[1]) if r[0] == 'ok' else r, (0, n))
    res('invert', lambda: ~A, (x ^ M, n))
    res('hw', lambda: A.hw(), bin(x).count('1'))
    for k in range(0, n + 2):
        res('lshift', lambda: A << k, ((x << k) & M, n))
        res('rshift', lambda: A >> k, (x >> k, n))
    for k in range(0, n + 1):
        res('rol', lambda: rol(A, k), (((x << k) | (x >> (n - k))) & M, n))
        res('ror', lambda: ror(A, k), (((x >> k) | (x << (n - k))) & M, n))
        res('rol-ror', lambda: rol(ror(A, k), k), (x, n))
    for k in range(1, n + 2):
        exp = [((x >> i) & ((1 << min(k, n - i)) - 1), min(k, n - i)) for i in range(0, n, k)]
        res('split', lambda: A.split(k), exp)
        res('split-bigend', lambda: A.split(k, bigend=True), exp[::-1])
        if n > 0:
            def recat():
                from functools import reduce
                return reduce(lambda a, b: a // b, A.split(k))
            res('split-concat', recat, (x, n))
    for s in range(0, n + 4):
        ns = max(n, s)
        res('zeroextend', lambda: Bits(A).zeroextend(s), (x, ns))
        if n > 0:
            sv = x - (1 << n) if (x >> (n - 1)) & 1 else x
            res('signextend', lambda: Bits(A).signextend(s), (sv & ((1 << ns) - 1), ns))
            res('signextend-signed-value', lambda: Bits(A).signextend(s).int(-1), sv)
            res('extend-sign', lambda: Bits(A).extend(True, s), (sv & ((1 << ns) - 1), ns))
        res('extend-zero', lambda: Bits(A).extend(False, s), (x, ns))


# ---- D: binary operators over all operand pairs --------------------------------

def pts_binary(tier):
    w = W(tier)
    return [(w, m, a) for (m, a) in vecs(w)]


def run_binary(ctx, pt):
    from crysp.bits import Bits
    wmax, m, a = pt
    for (k, b) in vecs(wmax):
        A = B(m, a)
        Bv = B(k, b)
        w = max(m, k)
        Mw = (1 << w) - 1

        def res(key, f, exp):
            r = ctx.attempt(f)
            got = val(r[1]) if r[0] == 'ok' else r
            ctx.eq('C08/%s' % key, got, exp)
            if r[0] == 'ok' and isinstance(r[1], Bits):
                ctx.ok('C08/%s/payload-exceeds-size' % key, 0 <= r[1].ival <= r[1].mask == (1 << r[1].size) - 1,
                       (r[1].ival, r[1].mask, r[1].size))
                if (m + k) % 2 == 0:
                    scribble(r[1])
                    r2 = ctx.attempt(f)
                    ctx.eq('C08/%s/result-shared-with-later-evaluation' % key, val(r2[1]) if r2[0] == 'ok' else r2, exp)
            ctx.ok('C08/%s/operand-mutated' % key, (A.ival, A.size, A.mask, Bv.ival, Bv.size, Bv.mask) ==
                   (a, m, (1 << m) - 1, b, k, (1 << k) - 1), (A.ival, A.size, Bv.ival, Bv.size))
        res('add', lambda: A + Bv, ((a + b) & Mw, w))
        res('sub', lambda: A - Bv, ((a - b) & Mw, w))
        res('and', lambda: A & Bv, (a & b, w))
        res('or', lambda: A | Bv, (a | b, w))
        res('xor', lambda: A ^ Bv, (a ^ b, w))
        res('mul', lambda: A * Bv, ((a * b) & ((1 << m) - 1), m))
        res('concat', lambda: A // Bv, (a | (b << m), m + k))
        res('concat-split', lambda: [val(z) for z in ((A // Bv)[0:m], (A // Bv)[m:m + k])], [(a, m), (b, k)])
        # the augmented spellings: the name is rebound to the result, every other reference to the old left operand
        # (another name, a list slot) and the right operand keep their values
        import operator as _op
        for nm, f, exp in (('iadd', _op.iadd, ((a + b) & Mw, w)), ('isub', _op.isub, ((a - b) & Mw, w)), ('iand', _op.iand, (a & b, w)), ('ior', _op.ior, (a | b, w)),
                           ('ixor', _op.ixor, (a ^ b, w)), ('imul', _op.imul, ((a * b) & ((1 << m) - 1), m)), ('ifloordiv', _op.ifloordiv, (a | (b << m), m + k))):
            X = B(m, a)
            held = [X, X]
            alias = X
            r = ctx.attempt(f, X, Bv)
            ctx.eq('C08/augmented-%s' % nm, val(r[1]) if r[0] == 'ok' else r, exp)
            ctx.ok('C08/augmented-%s/another-reference-to-the-left-operand-changed' % nm,
                   (alias.ival, alias.size, held[0].ival, held[1].size, Bv.ival, Bv.size) == (a, m, a, m, b, k), (alias.ival, alias.size, Bv.ival, Bv.size))
            if k == b.bit_length() and nm in ('iadd', 'isub', 'iand', 'ior', 'ixor'):
                X = B(m, a)
                alias = X
                wi = max(m, k)
                r = ctx.attempt(f, X, b)
                ctx.ok('C08/augmented-%s/another-reference-to-the-left-operand-changed' % nm, (alias.ival, alias.size) == (a, m), (alias.ival, alias.size))
        for nm, f, sh in (('ilshift', _op.ilshift, True), ('irshift', _op.irshift, False)):
            if k <= 3:
                X = B(m, a)
                alias = X
                r = ctx.attempt(f, X, b)
                ctx.eq('C08/augmented-%s' % nm, val(r[1]) if r[0] == 'ok' else r, (((a << b) & ((1 << m) - 1)) if sh else (a >> b), m))
                ctx.ok('C08/augmented-%s/another-reference-to-the-left-operand-changed' % nm, (alias.ival, alias.size) == (a, m), (alias.ival, alias.size))
        if m == k:
            res('eq', lambda: A == Bv, a == b)
            res('ne', lambda: A != Bv, a != b)
            res('hd', lambda: A.hd(Bv), bin(a ^ b).count('1'))
        else:
            ctx.raises('C08/hd/length-mismatch-accepted', lambda: A.hd(Bv))
        # integer operand (value b, i.e. the vector (bit_length(b), b)) on either side
        if k == b.bit_length():
            wi = max(m, k)
            Mi = (1 << wi) - 1
            res('add-int', lambda: A + b, ((a + b) & Mi, wi))
            res('radd-int', lambda: b + A, ((a + b) & Mi, wi))
            res('sub-int', lambda: A - b, ((a - b) & Mi, wi))
            res('and-int', lambda: A & b, (a & b, wi))
            res('rand-int', lambda: b & A, (a & b, wi))
            res('or-int', lambda: A | b, (a | b, wi))
            res('ror-int', lambda: b | A, (a | b, wi))
            res('xor-int', lambda: A ^ b, (a ^ b, wi))
            res('rxor-int', lambda: b ^ A, (a ^ b, wi))
            res('concat-int', lambda: A // b, (a | (b << m), m + k))
            if k <= m:
                res('rsub-int', lambda: b - A, ((b - a) & ((1 << m) - 1), m))
                res('eq-int', lambda: A == b, a == b)
                res('ne-int', lambda: A != b, a != b)


# ---- D: indexing, read and write -------------------------------------------------

def pts_index(tier):
    return vecs(6 if tier == 'thorough' else 5)


def run_index(ctx, pt):
    from crysp.bits import Bits
    n, x = pt
    bl = bits_of(n, x)
    A = B(n, x)

    def res(key, f, exp):
        r = ctx.attempt(f)
        got = val(r[1]) if r[0] == 'ok' else r
        ctx.eq('C08/%s' % key, got, exp)
        ctx.ok('C08/%s/operand-mutated' % key, (A.ival, A.size) == (x, n), (A.ival, A.size))
        if key.startswith('getitem') and r[0] == 'ok':
            # the selected bits are a new vector: overwriting it changes neither the source nor any later selection,
            # also on another vector
            scribble(r[1])
            r2 = ctx.attempt(f)
            ctx.eq('C08/%s/result-shared-with-later-evaluation' % key, val(r2[1]) if r2[0] == 'ok' else r2, exp)
            other = Bits(x ^ ((1 << n) - 1), n)
            ctx.eq('C08/getitem/result-shared-across-vectors', [other[j].ival for j in range(n)], [1 - b for b in bl])
            ctx.ok('C08/%s/operand-mutated' % key, (A.ival, A.size) == (x, n), (A.ival, A.size))
    # assigning a vector to a selection of itself (the value is the target object)
    for step in (-1, 2, -2):
        idx = list(range(n))[::step]
        if len(idx) == n and n > 0:
            X = B(n, x)
            r = ctx.attempt(lambda: X.__setitem__(slice(None, None, step), X))
            nb = list(bl)
            for i, b in zip(idx, bl):
                nb[i] = b
            ctx.eq('C08/setitem-slice-bits/value-is-the-target', (r[0], X.ival, X.size), ('ok', from_bits(nb), n))
    if 0 < n <= 5:
        for perm in itertools.permutations(range(n)):
            X = B(n, x)
            r = ctx.attempt(lambda: X.__setitem__(list(perm), X))
            nb = list(bl)
            for i, b in zip(perm, bl):
                nb[i] = b
            ctx.eq('C08/setitem-list/value-is-the-target', (r[0], X.ival, X.size), ('ok', from_bits(nb), n))
    for i in range(-n, n):      # in-range indices only: the statement does not fix what an out-of-range index does
        inr = True
        res('getitem-int', lambda: A[i], ((bl[i], 1) if inr else ('exc', 'IndexError')))
        for v in (0, 1):
            def f():
                X = B(n, x)
                X[i] = v
                return X
            if inr:
                nb = list(bl)
                nb[i] = v
                res('setitem-int', f, (from_bits(nb), n))

                def fb():
                    X = B(n, x)
                    X[i] = Bits(v, 1)            # the value is a one-bit vector (e.g. b[i] = a[j])
                    return X
                res('setitem-int/one-bit-vector-value', fb, (from_bits(nb), n))
            else:
                res('setitem-int', f, ('exc', 'IndexError'))
    rng = [None] + list(range(-n - 1, n + 2))
    for st in rng:
        for sp in rng:
            for step in (None, 1, 2, 3, -1, -2):
                sel = bl[slice(st, sp, step)]
                idx = list(range(n))[slice(st, sp, step)]
                ctx.shape(('slice', len(idx), step))
                res('getitem-slice', lambda: A[st:sp:step], (from_bits(sel), len(sel)))
                # write every value that fits the selection (exact-length list and Bits forms)
                vals = range(1 << len(idx)) if len(idx) <= 3 else (0, (1 << len(idx)) - 1, from_bits([1 - bl[i] for i in idx]))
                for vi in vals:
                    v = bits_of(len(idx), vi)
                    nb = list(bl)
                    for i, b in zip(idx, v):
                        nb[i] = b
                    exp = (from_bits(nb), n)

                    def f1():
                        X = B(n, x)
                        X[st:sp:step] = v
                        return X

                    def f2():
                        X = B(n, x)
                        V = Bits(vi, len(idx))
                        X[st:sp:step] = V
                        return X, (V.ival, V.size)
                    res('setitem-slice-list', f1, exp)
                    r = ctx.attempt(f2)
                    ctx.eq('C08/setitem-slice-bits', (val(r[1][0]), r[1][1]) if r[0] == 'ok' else r, (exp, (vi, len(idx))))
                    if step in (None, 1) and len(idx) > 0 and vi.bit_length() == len(idx):
                        def f3():
                            X = B(n, x)
                            X[st:sp:step] = vi
                            return X
                        res('setitem-slice-int', f3, exp)
    for ln in range(0, 4):
        for idx in itertools.chain(itertools.product(range(n), repeat=ln), itertools.product(range(-n, n), repeat=ln) if 0 < ln <= 2 else ()):
            idx0 = tuple(idx)
            idx = list(idx)
            if all(j >= 0 for j in idx0):       # reading through a list with negative positions is refused by the library: not judged
                res('getitem-list', lambda: A[idx], (from_bits([bl[j] for j in idx0]), ln))
                ctx.eq('C08/getitem-list/index-list-changed', idx, list(idx0))
            for vi in range(1 << ln):
                v = bits_of(ln, vi)
                nb = list(bl)
                for i, b in zip(idx0, v):
                    nb[i] = b

                def f():
                    X = B(n, x)
                    X[idx] = v
                    return X, list(idx)
                r = ctx.attempt(f)
                ctx.eq('C08/setitem-list', (val(r[1][0]), r[1][1]) if r[0] == 'ok' else r, ((from_bits(nb), n), list(idx0)))
                ctx.eq('C08/setitem-list/index-list-changed', idx, list(idx0))
                idx = list(idx0)


# ---- boundary widths -----------------------------------------------------------

WIDTHS = [7, 8, 9, 31, 32, 33, 63, 64, 65, 127, 128, 129, 2047, 2048]


def alphabet(n):
    vs = {0, 1, (1 << n) - 1, from_bits([i & 1 for i in range(n)]), from_bits([1 - (i & 1) for i in range(n)])}
    for k in (1, n // 2, n - 1):
        if 0 < k < n:
            vs |= {(1 << k) - 1, 1 << k, (1 << k) + 1}
    return sorted(v for v in vs if 0 <= v < (1 << n))


def pts_wide(tier):
    ws = WIDTHS if tier == 'thorough' else [8, 31, 32, 33, 64, 65, 128, 2048]
    return [(m, k) for m in ws for k in ws if tier == 'thorough' or m == k or abs(m - k) <= 1 or k == 8]


def run_wide(ctx, pt):
    from crysp.bits import Bits
    from crysp.utils.operators import rol, ror
    m, k = pt
    for a in alphabet(m):
        for b in alphabet(k):
            A, Bv = B(m, a), B(k, b)
            w = max(m, k)
            Mw = (1 << w) - 1
            for key, f, exp in (('add', lambda: A + Bv, ((a + b) & Mw, w)), ('sub', lambda: A - Bv, ((a - b) & Mw, w)),
                                ('and', lambda: A & Bv, (a & b, w)), ('or', lambda: A | Bv, (a | b, w)),
                                ('xor', lambda: A ^ Bv, (a ^ b, w)), ('mul', lambda: A * Bv, ((a * b) & ((1 << m) - 1), m)),
                                ('concat', lambda: A // Bv, (a | (b << m), m + k))):
                r = ctx.attempt(f)
                ctx.eq('C08/wide/%s' % key, val(r[1]) if r[0] == 'ok' else r, exp)
            ctx.ok('C08/wide/operand-mutated', (A.ival, A.size, Bv.ival, Bv.size) == (a, m, b, k))
        if m == k:
            M = (1 << m) - 1
            A = B(m, a)
            for key, f, exp in (('neg', lambda: -A, ((-a) & M, m)), ('invert', lambda: ~A, (a ^ M, m)),
                                ('neg-inverse', lambda: A + (-A), (0, m))):
                r = ctx.attempt(f)
                ctx.eq('C08/wide/%s' % key, val(r[1]) if r[0] == 'ok' else r, exp)
            for s in sorted({0, 1, 7, 8, m // 2, m - 1, m, m + 1}):
                if s <= m:
                    for key, f, exp in (('rol', lambda: rol(A, s), (((a << s) | (a >> (m - s))) & M, m)),
                                        ('ror', lambda: ror(A, s), (((a >> s) | (a << (m - s))) & M, m))):
                        r = ctx.attempt(f)
                        ctx.eq('C08/wide/%s' % key, val(r[1]) if r[0] == 'ok' else r, exp)
                for key, f, exp in (('lshift', lambda: A << s, ((a << s) & M, m)), ('rshift', lambda: A >> s, (a >> s, m))):
                    r = ctx.attempt(f)
                    ctx.eq('C08/wide/%s' % key, val(r[1]) if r[0] == 'ok' else r, exp)
            for sub in (1, 7, 8, 32, 64):
                exp = [((a >> i) & ((1 << min(sub, m - i)) - 1), min(sub, m - i)) for i in range(0, m, sub)]
                r = ctx.attempt(lambda: A.split(sub))
                ctx.eq('C08/wide/split', val(r[1]) if r[0] == 'ok' else r, exp)
            sv = a - (1 << m) if (a >> (m - 1)) & 1 else a
            for s in (m, m + 1, m + 8, 2 * m):
                r = ctx.attempt(lambda: Bits(A).signextend(s))
                ctx.eq('C08/wide/signextend', val(r[1]) if r[0] == 'ok' else r, (sv & ((1 << s) - 1), s))
                r = ctx.attempt(lambda: Bits(A).zeroextend(s))
                ctx.eq('C08/wide/zeroextend', val(r[1]) if r[0] == 'ok' else r, (a, s))
            ctx.ok('C08/wide/operand-mutated', (A.ival, A.size) == (a, m))


# ---- H: mutation histories on one vector, BFS to the fixpoint ---------------------

class MutSys(HSystem):
    """one live vector `b`, an alias-free copy `c` of each value it had, and the model (n, x)
    kept next to it; events are all mutating operations with arguments over width <= wmax"""

    def __init__(self, wmax):
        self.wmax = wmax

    def fresh(self):
        from crysp.bits import Bits
        b = Bits(0, 0)
        return {'b': b, 'model': (0, 0), 'copies': [(Bits(b), b & b, (0, 0))]}

    def canon(self, o):
        return (o['b'].ival, o['b'].size, o['b'].mask)

    def events(self, o):
        n = o['b'].size
        ev = []
        for k in range(self.wmax + 1):
            ev.append(('size', k))
            ev.append(('zeroextend', k))
            if n > 0:
                ev.append(('signextend', k))
        for i in range(-n, n):
            for v in (0, 1):
                ev.append(('set', i, v))
        for a in range(n):
            for b_ in range(a + 1, n + 1):
                for vi in range(1 << (b_ - a)):
                    ev.append(('setslice', a, b_, 1, vi))
        for step in (2, -1):
            idx = list(range(n))[::step]
            if idx:
                for vi in range(1 << len(idx)):
                    ev.append(('setstep', step, vi))
        for idx in itertools.product(range(n), repeat=2):
            for vi in range(4):
                ev.append(('setlist', idx[0], idx[1], vi))
        return ev

    def model(self, st, ev):
        n, x = st
        bl = bits_of(n, x)
        t = ev[0]
        if t == 'size':
            return (ev[1], x & ((1 << ev[1]) - 1))
        if t == 'zeroextend':
            return (max(n, ev[1]), x)
        if t == 'signextend':
            s = max(n, ev[1])
            sv = x - (1 << n) if (x >> (n - 1)) & 1 else x
            return (s, sv & ((1 << s) - 1))
        if t == 'set':
            bl[ev[1]] = ev[2]
        elif t == 'setslice':
            for j, i in enumerate(range(ev[1], ev[2])):
                bl[i] = (ev[4] >> j) & 1
        elif t == 'setstep':
            for j, i in enumerate(list(range(n))[::ev[1]]):
                bl[i] = (ev[2] >> j) & 1
        elif t == 'setlist':
            for j, i in enumerate(ev[1:3]):
                bl[i] = (ev[3] >> j) & 1
        return (n, from_bits(bl))

    def apply(self, o, ev):
        from crysp.bits import Bits
        b = o['b']
        o['copies'] = [(Bits(b), b & b, (b.size, b.ival))]
        o['model'] = self.model(o['model'], ev)
        t = ev[0]
        if t == 'size':
            b.size = ev[1]
        elif t == 'zeroextend':
            b.zeroextend(ev[1])
        elif t == 'signextend':
            b.signextend(ev[1])
        elif t == 'set':
            b[ev[1]] = ev[2]
        elif t == 'setslice':
            b[ev[1]:ev[2]] = bits_of(ev[2] - ev[1], ev[4])
        elif t == 'setstep':
            n = b.size
            b[::ev[1]] = bits_of(len(list(range(n))[::ev[1]]), ev[2])
        elif t == 'setlist':
            b[[ev[1], ev[2]]] = bits_of(2, ev[3])
        return (b.ival, b.size)

    def judge(self, ctx, hist, ev, res, o):
        n, x = o['model']
        b = o['b']
        ctx.eq('C08/history/%s' % ev[0], res, ('ok', (x, n)))
        ctx.ok('C08/history/%s/mask' % ev[0], b.mask == (1 << b.size) - 1 and 0 <= b.ival <= b.mask, (b.ival, b.size, b.mask))
        for (c1, c2, (cn, cx)) in o['copies']:
            ctx.ok('C08/history/%s/alias-changed' % ev[0], (c1.ival, c1.size, c2.ival, c2.size) == (cx, cn, cx, cn),
                   (c1.ival, c1.size, c2.ival, c2.size))


def systems(tier):
    return {'mut-w6': MutSys(6)} if tier == 'thorough' else {'mut-w5': MutSys(5)}


def subchecks():
    return [
        Sub('unary', pts_unary, run_unary, engine='D',
            bound='every vector of width 0..8 (thorough 0..10): neg, invert, shifts 0..n+1, rotations 0..n, split(k) k=1..n+1, extensions to 0..n+3'),
        Sub('binary', pts_binary, run_binary, engine='D',
            bound='(augmented spellings += -= &= |= ^= *= //= <<= >>= included: other references to the left operand keep their value) every ordered pair of vectors of widths 0..7 (thorough 0..9): + - & | ^ * // == != hd, int operand on either side'),
        Sub('index', pts_index, run_index, engine='D',
            bound='every vector of width 0..5 (thorough 0..6): every in-range int index, every slice start/stop in {None,-n-1..n+1} step in {None,1,2,3,-1,-2}, every index list of length<=3; reads, and writes of every fitting value'),
        Sub('wide', pts_wide, run_wide, engine='P',
            bound='widths {7,8,9,31,32,33,63,64,65,127,128,129,2047,2048} (quick: subset) x boundary value alphabet; sampled by the property statement itself', exhaustive=False),
        hsub('mutation-histories', systems, lambda tier: 12,
             bound='one vector, all mutating events with arguments over widths <=5 (thorough <=6), BFS to the fixpoint'),
    ]


ASSUMPTIONS = ['int - Bits only with ints that fit the vector size; Bits * int not exercised (the statement defines * between vectors only)',
               '== / != / hd judged on equal sizes only',
               'slice assignment judged for exact-length list/Bits values, int values only on contiguous slices with the top bit of the selection set']
