"""C14 - hashing a message piecewise gives the same digest as hashing it at once (engine H, confluence)."""
import itertools
from mc.engine import Sub, HSystem, hsub, canon, InternalError
from mc.common import ramp, expander
from mc.checks import hashfam as HF

ALGS = HF.MD + HF.BLAKES + HF.BLAKE2


def hstate(o):
    """property-relevant state of a streaming hash object: chaining value, bit counter, pad flag"""
    H = o.H
    hv = tuple(H.ival) if hasattr(H, 'ival') and isinstance(H.ival, list) else tuple(x.ival for x in H)
    return (hv, o.padmethod.bitcnt, o.padmethod.padflag)


class PieceSys(HSystem):
    """one hash object after initstate(); the fixed message M = nblocks full blocks + tail bytes.
    events: ('feed', k) the next k whole blocks with padding=False (k=0: an empty piece);
            ('close',) the rest with padding=True."""

    def __init__(self, a, nblocks, tail, salt=None, abandoned=None):
        self.salt = salt
        self.abandoned = abandoned        # salt of a message that was started on the same object and never finished
        self.a, self.nb, self.tail = a, nblocks, tail
        self.bl = HF.blocklen(a)
        self.M = expander(nblocks * self.bl + tail, 1 + nblocks)

    def init(self, o):
        if self.abandoned is not None:
            o.initstate(salt=self.abandoned)
            o.update(expander(HF.blocklen(self.a), 77), padding=False)
        if self.salt is None:
            o.initstate()
        else:
            o.initstate(salt=self.salt)

    def refdigest(self):
        if self.salt is None:
            return HF.ref(self.a, self.M)
        from mc.refs import blake as RB
        return RB.blake(int(self.a[5:]), self.M, salt=self.salt)

    def fresh(self):
        o = HF.make(self.a)
        self.init(o)
        return {'o': o, 'pos': 0, 'closed': False}

    def canon(self, o):
        return (hstate(o['o']), o['pos'], o['closed'])

    def events(self, o):
        if o['closed']:
            return []
        left = (len(self.M) - o['pos']) // self.bl
        return [('feed', k) for k in range(0, min(3, left) + 1)] + [('close',)]

    def apply(self, o, ev):
        if ev[0] == 'feed':
            piece = self.M[o['pos']:o['pos'] + ev[1] * self.bl]
            o['pos'] += len(piece)
            o['o'].update(piece, padding=False)
            return None
        piece = self.M[o['pos']:]
        o['final_len'] = len(piece)
        o['pos'] = len(self.M)
        o['closed'] = True
        return o['o'].update(piece, padding=True)

    def judge(self, ctx, hist, ev, res, o):
        K = 'C14/' + self.a
        if ev[0] == 'feed':
            cls = '/empty-piece' if ev[1] == 0 else '/piece'
            ctx.eq(K + cls, res, ('ok', None))
            # confluence: the same prefix fed in one piece to a fresh object
            f = HF.make(self.a)
            self.init(f)
            if o['pos']:
                f.update(self.M[:o['pos']], padding=False)
            ctx.eq(K + cls + '/state', hstate(o['o']), hstate(f))
            ctx.eq(K + cls + '/bit-counter', o['o'].padmethod.bitcnt, 8 * o['pos'])
        else:
            empty_final = o['final_len'] == 0 and len(self.M) > 0
            cls = '/close-with-empty-final-piece-after-whole-blocks' if empty_final else '/close'
            ctx.eq(K + cls + ('/salted' if self.salt is not None else ''), res, ('ok', self.refdigest()))


def systems(tier):
    d = {}
    for a in ALGS:
        bl = HF.blocklen(a)
        lf = HF.lenfield(a)
        tails = sorted({0, 1, bl - lf - 1, bl - lf, bl - 1} - {bl})
        for nb in range(0, (5 if tier == 'thorough' else 4)):
            for t in tails:
                if tier == 'quick' and nb in (2,) and t not in (0, 1):
                    continue
                d['%s/%d+%d' % (a, nb, t)] = PieceSys(a, nb, t)
        # longer messages: 6 and 9 blocks (thorough: also 17), pieces of up to 3 blocks
        for nb in (6, 9) + ((17,) if tier == 'thorough' else ()):
            if tier == 'quick' and a not in ('md5', 'sha1', 'sha256', 'sha512', 'blake256', 'blake512', 'blake2s', 'blake2b'):
                continue
            d['%s/%d+%d' % (a, nb, 1)] = PieceSys(a, nb, 1)
    # BLAKE with a non-palindromic salt given to initstate
    for a in HF.BLAKES:
        w = 64 if HF.blocklen(a) == 128 else 32
        salt = int.from_bytes(expander(4 * w // 8, 21), 'big')
        for nb, t in ((2, 1), (3, 0)):
            d['%s/salted/%d+%d' % (a, nb, t)] = PieceSys(a, nb, t, salt=salt)
        d['%s/salted-after-abandoned-message/2+1' % a] = PieceSys(a, 2, 1, salt=salt, abandoned=salt >> 8)
        d['%s/unsalted-after-abandoned-salted-message/1+1' % a] = PieceSys(a, 1, 1, salt=0, abandoned=salt)
    return d


def pts_longpiece(tier):
    algs = ALGS if tier == 'thorough' else ['md5', 'sha1', 'sha256', 'sha512', 'blake256', 'blake2s', 'blake2b']
    pts = [(a, nb) for a in algs for nb in ((257, 300) if tier == 'thorough' else (257,))]
    if tier == 'thorough':
        pts += [('md5', (1 << 15) + 1), ('md4', (1 << 15) + 2)]        # a second piece of more than 2 MiB
    return pts


def run_longpiece(ctx, pt):
    """one non-final piece of more than 256 blocks (sampled: the property enumerates cut sets up to 4 blocks)"""
    a, nb = pt
    bl = HF.blocklen(a)
    M = expander(nb * bl + bl + 7, 40) if nb < 1000 else (expander(4096, 40) * (nb * bl // 4096 + 2))[:nb * bl + bl + 7]
    o = HF.make(a)
    o.initstate()
    if nb >= 1000:
        # the long piece is not the first one
        ctx.eq('C14/%s/long-piece' % a, ctx.attempt(lambda: o.update(M[:bl], padding=False))[0], 'ok')
        ctx.eq('C14/%s/long-piece' % a, ctx.attempt(lambda: o.update(M[bl:nb * bl], padding=False))[0], 'ok')
        ctx.eq('C14/%s/long-piece/bit-counter' % a, o.padmethod.bitcnt, 8 * nb * bl)
        ctx.eq('C14/%s/long-piece/close' % a, ctx.attempt(lambda: o.update(M[nb * bl:], padding=True)), ('ok', HF.ref(a, M)))
        return
    ctx.eq('C14/%s/long-piece' % a, ctx.attempt(lambda: o.update(M[:nb * bl], padding=False))[0], 'ok')
    ctx.eq('C14/%s/long-piece/bit-counter' % a, o.padmethod.bitcnt, 8 * nb * bl)
    ctx.eq('C14/%s/long-piece' % a, ctx.attempt(lambda: o.update(M[nb * bl:(nb + 1) * bl], padding=False))[0], 'ok')
    ctx.eq('C14/%s/long-piece/close' % a, ctx.attempt(lambda: o.update(M[(nb + 1) * bl:], padding=True)), ('ok', HF.ref(a, M)))


def pts_fork(tier):
    return [(a, k) for a in ALGS for k in (1, 2)]


def run_fork(ctx, pt):
    """a stream forked with copy.deepcopy after k blocks: the original then absorbs more, the fork is closed first, then the
    original - each digest is the one of the bytes that object was fed (a fork that cannot be made is not judged)"""
    import copy
    a, k = pt
    bl = HF.blocklen(a)
    A, B, C, D = expander(k * bl, 61), expander(2 * bl, 62), expander(bl // 2 + 3, 63), expander(5, 64)
    o = HF.make(a)
    o.initstate()
    ctx.attempt(lambda: o.update(A, padding=False))
    try:
        f = copy.deepcopy(o)
    except Exception:
        return
    ctx.attempt(lambda: o.update(B, padding=False))
    ctx.eq('C14/%s/deep-copied-stream/fork' % a, ctx.attempt(lambda: f.update(C, padding=True)), ('ok', HF.ref(a, A + C)))
    ctx.eq('C14/%s/deep-copied-stream/bit-counter' % a, o.padmethod.bitcnt, 8 * len(A + B))
    ctx.eq('C14/%s/deep-copied-stream/original' % a, ctx.attempt(lambda: o.update(D, padding=True)), ('ok', HF.ref(a, A + B + D)))


FAST = ('md4', 'md5', 'sha0', 'sha1', 'sha224', 'sha256', 'sha384', 'sha512', 'sha512_224', 'sha512_256', 'blake2b')


def pts_pow2(tier):
    pts = [(a, 16, dn) for a in ALGS for dn in ((-1, 0, 1) if a in FAST else (0,))]
    if tier == 'thorough':
        pts += [(a, 20, 0) for a in ALGS] + [(a, 21, 0) for a in ALGS if a in FAST]
    return pts


def run_pow2(ctx, pt):
    """messages of exactly 2^k bytes (and one byte either side at 2^16): one-shot call versus two pieces, both versus
    hashlib where hashlib has the algorithm (sizes where an implementation would naturally slice its input)"""
    import hashlib
    a, k, dn0 = pt
    n = 1 << k
    for dn in (dn0,):
        M = (expander(1 << 16, 51) * ((n >> 16) + 1))[:n + dn]
        one = ctx.attempt(lambda: HF.make(a)(M))
        o = HF.make(a)
        o.initstate()
        half = (n // 2)
        ctx.eq('C14/%s/size-2^k/piece' % a, ctx.attempt(lambda: o.update(M[:half], padding=False))[0], 'ok')
        ctx.eq('C14/%s/size-2^k/bit-counter' % a, o.padmethod.bitcnt, 8 * half)
        two = ctx.attempt(lambda: o.update(M[half:], padding=True))
        ctx.eq('C14/%s/size-2^k/one-shot-differs-from-pieces' % a, one, two)
        if a in hashlib.algorithms_available and a not in ('md4',):
            ctx.eq('C14/%s/size-2^k/one-shot-vs-hashlib' % a, one, ('ok', hashlib.new(a, M).digest()))


def pts_nil_long(tier):
    pts = [(n, cuts) for n in ((66000, 70000) if tier == 'thorough' else (66000,)) for cuts in ((65530,), (65540, 65600), (100, 65534, 65536))]
    if tier == 'thorough':
        pts += [((1 << 20) + 700, ((1 << 20) + 64,)), ((1 << 20) + 700, (600000, (1 << 20) + 100))]     # more than 1 MiB through one object
    return pts


def run_nil_long(ctx, pt):
    from crysp.nilsimsa import Nilsimsa
    from mc.refs import lsh
    n, cuts = pt
    M = (lsh.T0 * (n // len(lsh.T0) + 1))[:n]
    whole = ctx.attempt(lambda: Nilsimsa()(M))

    def stream(final):
        o = Nilsimsa()
        p = 0
        for c in list(cuts) + [n]:
            o.update(M[p:c])
            p = c
        return final(o)

    def oneshot(final):
        o = Nilsimsa()
        o.update(M)
        return final(o)
    state = lambda o: (o.count, tuple(o.dacc), tuple(o.seen[-4:]))
    ctx.eq('C14/nilsimsa/long-stream-cuts', ctx.attempt(stream, lambda o: o.digest()), whole)
    # the digest thresholds hide small count differences: compare the accumulators themselves (confluence on the state)
    ctx.eq('C14/nilsimsa/long-stream-cuts/state', ctx.attempt(stream, state), ctx.attempt(oneshot, state))


# ---- Nilsimsa: every cut at any byte position --------------------------------------------

def pts_nil(tier):
    short = range(0, (17 if tier == 'thorough' else 13))
    longer = (35, 36, 37, 45, 64, 67, 68, 100) if tier == 'thorough' else (35, 36, 45, 67)
    return [(target, kind, n) for target in (53, 17) for kind in ('ramp', 'text') for n in list(short) + list(longer)]


def run_nil(ctx, pt):
    from crysp.nilsimsa import Nilsimsa
    target, kind, n = pt
    m = ramp(n, 41, 3) if kind == 'ramp' else (b'The rain in Spain falls mainly in the plains. ' * 3)[:n]
    whole = ctx.attempt(lambda: Nilsimsa(target)(m))
    for i in range(0, n + 1):
        r = ctx.attempt(lambda: Nilsimsa(target).update(m[:i]).update(m[i:]).digest())
        ctx.eq('C14/nilsimsa/one-cut', r, whole)
        for j in (range(i, n + 1) if n <= 16 else range(i, n + 1, 7)):
            r = ctx.attempt(lambda: Nilsimsa(target).update(m[:i]).update(m[i:j]).update(m[j:]).digest())
            ctx.eq('C14/nilsimsa/two-cuts', r, whole)


def selftest():
    try:
        return HF.selftest()
    except AssertionError as e:
        raise InternalError('reference self-test failed: %r' % (e,))


def subchecks():
    return [
        Sub('forked-streams', pts_fork, run_fork, engine='H',
            bound='16 hashes: a stream deep-copied after 1 or 2 blocks, the original fed 2 more blocks, fork and original closed with different tails: each digest vs reference'),
        Sub('power-of-two-sizes', pts_pow2, run_pow2, engine='P', exhaustive=False, chunk=1,
            bound='16 hashes on messages of exactly 2^16 bytes (and 2^16-1, 2^16+1): one-shot vs two pieces vs hashlib; thorough: exactly 2^20 bytes for all and 2^21 bytes for the 11 faster ones'),
        hsub('pieces', systems, 20,
             bound='16 hashes (MD4, MD5, SHA-0, SHA-1, SHA-224/256/384/512, SHA-512/224, SHA-512/256, BLAKE-224/256/384/512, BLAKE2s, BLAKE2b) x message of 0..3 (thorough 0..4) blocks + tail in {0,1,blen-lenfield-1,blen-lenfield,blen-1}, plus messages of 6 and 9 (thorough 17) blocks + 1 byte; events: feed next 0/1/2/3 blocks, close with the rest; BFS over all histories (all compositions, empty pieces at every position), states deduplicated by (chaining value, bit counter, pad flag, position); each piece compared with the one-piece prefix state of a fresh object, each closing digest with the reference digest'),
        Sub('long-pieces', pts_longpiece, run_longpiece, engine='H', exhaustive=False,
            bound='one non-final piece of 257 (thorough also 300 blocks, and for MD4/MD5 a second piece of more than 2 MiB), one more block, closing piece of 7 bytes; 7 hashes (thorough all 16)'),
        Sub('nilsimsa-long-streams', pts_nil_long, run_nil_long, engine='H', exhaustive=False,
            bound='Nilsimsa stream of 66000 (thorough also 70000, and 1 MiB + 700) bytes cut at {65530}, {65540,65600}, {100,65534,65536} vs the one-shot digest'),
        Sub('nilsimsa-cuts', pts_nil, run_nil, engine='D',
            bound='Nilsimsa targets {53,17} x 2 alphabets x every message length 0..12 (thorough 0..16) x every 1-cut and 2-cut position; lengths {35,36,45,67} (thorough 8 lengths up to 100, across the digest threshold steps) x every 1-cut and every 7th second cut'),
    ]


ASSUMPTIONS = ['closing digests are compared with hashlib / the reference hashes (mc/refs), intermediate states with a fresh object of the same library fed the prefix in one piece']
