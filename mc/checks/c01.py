"""C01 - MD4/MD5/SHA-0/SHA-1/SHA-2 equal the standards for every message and bit length."""
import hashlib
from mc.engine import Sub, InternalError
from mc.common import ramp, expander, DATA, zero_words
from mc.refs import mdsha

ALGS = ['md4', 'md5', 'sha0', 'sha1', 'sha224', 'sha256', 'sha384', 'sha512', 'sha512_224', 'sha512_256']
OUTLEN = {'md4': 16, 'md5': 16, 'sha0': 20, 'sha1': 20, 'sha224': 28, 'sha256': 32, 'sha384': 48, 'sha512': 64,
          'sha512_224': 28, 'sha512_256': 32}


def geom(a):
    big = a in ('sha384', 'sha512', 'sha512_224', 'sha512_256')
    return (1024, 128) if big else (512, 64)     # block bits, length-field bits


def mk(a):
    from crysp.sha import SHA1, SHA2
    from crysp.md import MD4, MD5
    return {'md4': MD4, 'md5': MD5, 'sha0': lambda: SHA1(0), 'sha1': SHA1, 'sha224': lambda: SHA2(224),
            'sha256': lambda: SHA2(256), 'sha384': lambda: SHA2(384), 'sha512': lambda: SHA2(512),
            'sha512_224': lambda: SHA2(512, 224), 'sha512_256': lambda: SHA2(512, 256)}[a]()


_POOL = {}


def reused(a):
    """an object that has already hashed another (two-block, non byte-aligned) message: the judged call is its second call"""
    o = mk(a)
    try:
        o(b'\xa5' * 150, bitlen=1197)
    except Exception:
        pass
    return o


def data(kind, n):
    return {'ramp': lambda: ramp(n, 13, n), 'exp': lambda: expander(n, 1), 'ff': lambda: b'\xff' * n,
            'zero': lambda: b'\x00' * n, 'exp2': lambda: expander(n, 2), 'exp3': lambda: expander(n, 3),
            'zw4': lambda: zero_words(n, 4, 64), 'zw8': lambda: zero_words(n, 8, 128)}[kind]()


def ref(a, m, L=None):
    if (L is None or L == 8 * len(m)) and a not in ('md4', 'sha0'):
        return hashlib.new(a, m).digest()
    return mdsha.md_hash(a, m, L)


def boundaries(a):
    B, cs = geom(a)
    return [0, B - cs - 1, B, 2 * B - cs - 1, 2 * B]


def pts_lengths(tier):
    pts = []
    for a in ALGS:
        B, cs = geom(a)
        if tier == 'thorough':
            for L in range(1, 2 * B + cs + 17):
                for d in ('ramp', 'exp', 'ff'):
                    pts.append((a, L, d))
        else:
            Ls = set()
            for c in boundaries(a):
                for dl in range(-9, 10):
                    if c + dl > 0:
                        Ls.add(c + dl)
            for L in sorted(Ls):
                pts.append((a, L, 'ramp'))
    return pts


def lenclass(a, L):
    B, cs = geom(a)
    r = L % B
    return (L // B, 'spill' if r > B - cs - 1 else ('edge' if r == B - cs - 1 else 'fit'), L % 8 != 0)


def run_lengths(ctx, pt):
    a, L, d = pt
    m = data(d, (L + 7) // 8)
    ctx.shape((a,) + lenclass(a, L))
    r = ctx.attempt(lambda: mk(a)(m, bitlen=L))
    exp = mdsha.md_hash(a, m, L)
    ctx.eq('C01/%s/bit-length-digest' % a, r, ('ok', exp))
    ctx.eq('C01/%s/bit-length-digest/reused-object' % a, ctx.attempt(lambda: reused(a)(m, bitlen=L)), ('ok', exp))
    if L % 8 == 0:
        r2 = ctx.attempt(lambda: mk(a)(m))
        ctx.eq('C01/%s/byte-digest' % a, r2, ('ok', ref(a, m)))


def pts_bytes(tier):
    pts = []
    for a in ALGS:
        B, cs = geom(a)
        top = (4 * B // 8 + 2) if tier == 'thorough' else (2 * B // 8 + 10)
        for n in range(0, top):
            pts.append((a, n, 'ramp'))
        for n in range(0, B // 32 + 2):
            for d in ('zero', 'ff', 'exp', 'exp2', 'exp3'):
                pts.append((a, n, d))
        # long messages: 5, 8, 16, 17, 33 (thorough also 64, 65, 129) blocks, just below / at / above the block boundary
        for n in (B // 8 - 1, B // 8, 2 * B // 8 + 3, 3 * B // 8):
            pts.append((a, n, 'zw4' if B == 512 else 'zw8'))
        for k in (5, 8, 16, 17, 33) + ((64, 65, 129) if tier == 'thorough' else ()):
            for dn in (-1, 0, 1) + ((-(cs // 8) - 1, -(cs // 8)) if tier == 'thorough' else ()):
                pts.append((a, k * B // 8 + dn, 'exp'))
    return pts


def run_bytes(ctx, pt):
    a, n, d = pt
    m = data(d, n)
    ctx.shape((a,) + lenclass(a, 8 * n))
    r = ctx.attempt(lambda: mk(a)(m))
    ctx.eq('C01/%s/byte-digest' % a, r, ('ok', ref(a, m)))
    ctx.eq('C01/%s/byte-digest/reused-object' % a, ctx.attempt(lambda: reused(a)(m)), ('ok', ref(a, m)))
    if r[0] == 'ok':
        ctx.eq('C01/%s/digest-length' % a, len(r[1]), OUTLEN[a])
    if n > 0:
        r = ctx.attempt(lambda: mk(a)(m, bitlen=8 * n))
        ctx.eq('C01/%s/bitlen-equals-8n' % a, r, ('ok', ref(a, m)))


def sum0(a, nblocks, variant):
    """blocks whose words (32- or 64-bit, in the algorithm's byte order) add up to 0 modulo 2^w although the block is not
    zero: a relation between far-apart parts of the input"""
    B, cs = geom(a)
    wb = 8 if B == 1024 else 4
    order = 'little' if a in ('md4', 'md5') else 'big'
    out = b''
    for k in range(nblocks):
        if variant == 0:
            words = [int.from_bytes(expander(wb, 60 + k + j), 'big') for j in range(15)]
            words.append((-sum(words)) % (1 << (8 * wb)))
        elif variant == 1:
            words = [1 << (8 * wb - 1), 1 << (8 * wb - 1)] + [0] * 14
        else:
            words = [0] * 14 + [1, (1 << (8 * wb)) - 1]
        out += b''.join(w.to_bytes(wb, order) for w in words)
    return out


def pts_values(tier):
    return [(a, nb, v) for a in ALGS for nb in (1, 2) for v in (0, 1, 2)] + \
           ([(a, 0, 'big') for a in ('md4', 'md5')] if tier == 'thorough' else [])


def run_values(ctx, pt):
    a, nb, v = pt
    if v == 'big':
        m = expander(64, 3) * ((1 << 14) + 1) + b'xyz'       # one-shot message of more than 1 MiB (sampled, thorough only)
        ctx.eq('C01/%s/byte-digest/more-than-1MiB' % a, ctx.attempt(lambda: mk(a)(m)), ('ok', ref(a, m)))
        return
    for tail in (b'', b'abc'):
        m = sum0(a, nb, v) + tail
        ctx.eq('C01/%s/byte-digest/blocks-with-word-sum-zero' % a, ctx.attempt(lambda: mk(a)(m)), ('ok', ref(a, m)))
        ctx.eq('C01/%s/byte-digest/blocks-with-word-sum-zero' % a, ctx.attempt(lambda: mk(a)(b'\x01' + m)), ('ok', ref(a, b'\x01' + m)))


def pts_container(tier):
    pts = []
    for a in ALGS:
        B, cs = geom(a)
        Ls = set()
        for c in boundaries(a):
            for dl in range(-9, 10) if tier == 'thorough' else (-9, -8, -7, -1, 0, 1, 3, 7, 8, 9):
                if c + dl > 0:
                    Ls.add(c + dl)
        for L in sorted(Ls):
            for extra in (1, B // 8):
                pts.append((a, L, extra))
    return pts


def run_container(ctx, pt):
    a, L, extra = pt
    m = data('exp', (L + 7) // 8)
    tail = b'\xaa' * extra
    r = ctx.attempt(lambda: mk(a)(m + tail, bitlen=L))
    ctx.eq('C01/%s/prefix-of-longer-container' % a, r, ('ok', mdsha.md_hash(a, m, L)))


def pts_longbits(tier):
    pts = [(a, 1025, dl) for a in ALGS for dl in (3, 5)]
    if tier == 'thorough':
        pts += [(a, 4097, 1) for a in ALGS] + [(a, 16385, 7) for a in ('md4', 'md5', 'sha1', 'sha256')] + [(a, 8193, 7) for a in ('sha512', 'sha512_256')]
    return pts


def run_longbits(ctx, pt):
    """explicit bit lengths that end inside the last byte of messages of more than 1024 (4096, 1 MiB worth of) blocks"""
    a, nblk, dl = pt
    B, cs = geom(a)
    n = nblk * B // 8 + 3
    m = (expander(4096, 61) * (n // 4096 + 1))[:n - 1] + b'\xff'
    L = 8 * n - dl
    exp = mdsha.md_hash(a, m, L)
    ctx.eq('C01/%s/bit-length-digest/more-than-1024-blocks' % a, ctx.attempt(lambda: mk(a)(m, bitlen=L)), ('ok', exp))
    if nblk == 1025:
        ctx.eq('C01/%s/bit-length-digest/more-than-1024-blocks' % a, ctx.attempt(lambda: mk(a)(m + b'\xaa' * 70, bitlen=L)), ('ok', exp))
        ctx.eq('C01/%s/bit-length-digest/more-than-1024-blocks' % a, ctx.attempt(lambda: mk(a)(m, bitlen=8 * n)), ('ok', ref(a, m)))
        ctx.eq('C01/%s/bit-length-digest/more-than-1024-blocks' % a, ctx.attempt(lambda: mk(a)(m, bitlen=8 * n - 8)), ('ok', ref(a, m[:-1])))


def pts_reject(tier):
    pts = []
    for a in ALGS:
        B, cs = geom(a)
        for n in (0, 1, B // 8 - cs // 8, B // 8):
            for over in (1, 7, 8, B):
                pts.append((a, n, over))
    return pts


def run_reject(ctx, pt):
    a, n, over = pt
    m = data('ramp', n)
    ctx.raises('C01/%s/bitlen-beyond-data-accepted' % a, lambda: mk(a)(m, bitlen=8 * n + over))


def pts_preset(tier):
    pts = []
    for a in ALGS:
        B, cs = geom(a)
        cnts = [(1 << 32) - B, (1 << 32) - 2 * B, 1 << 33, (1 << 32) - 8]
        if B == 1024:
            cnts += [(1 << 64) - B, (1 << 64) - 2 * B, 1 << 65]
        else:
            cnts += [(1 << 40)]
        for c in cnts:
            for n in (0, 1, B // 8 - cs // 8 - 1, B // 8 - cs // 8, B // 8, B // 8 + 1):
                pts.append((a, c, n))
        # a carry into every bit of the length field
        for k in range(11, cs):
            pts.append((a, (1 << k) - B, B // 8 + 1))
    return pts


def run_preset(ctx, pt):
    """non-initial states: chaining value and consumed-bit counter preset on a live object,
    so that the length field needs its second word without hashing 512 MiB"""
    a, c0, n = pt
    B, cs = geom(a)
    o = mk(a)
    o.initstate()
    h0 = [(x.ival * 3 + 1) & x.mask for x in o.H]
    for x, v in zip(o.H, h0):
        x.ival = v
    o.padmethod.bitcnt = c0
    m = data('ramp', n)
    r = ctx.attempt(lambda: o.update(m, padding=True))
    exp = mdsha.md_hash(a, m, None, h0=h0, count0=c0)
    ctx.eq('C01/%s/length-field-beyond-one-word' % a, r, ('ok', exp))


def pts_preset_h(tier):
    return [(a, v, n) for a in ALGS for v in range(6) for n in (0, 3, geom(a)[0] // 8 + 1)]


def run_preset_h(ctx, pt):
    """non-initial states whose chaining words coincide (all equal, pairwise equal, zero, all-ones): value relations
    between working variables that no message reaches from the standard IV"""
    a, v, n = pt
    B, cs = geom(a)
    o = mk(a)
    o.initstate()
    nw = len(o.H)
    mask = o.H[0].mask
    base = [(x.ival * 5 + 3) & mask for x in o.H]
    h0 = [[0x01020304 & mask] * nw, [0] * nw, [mask] * nw,
          [base[i % (nw // 2 if nw % 2 == 0 else nw)] for i in range(nw)],          # H[i] == H[i + nw/2]
          [base[0], base[0]] + base[2:], base[:-2] + [base[1], base[2]]][v]
    for x, val in zip(o.H, h0):
        x.ival = val
    c0 = 3 * B
    o.padmethod.bitcnt = c0
    m = data('exp', n)
    r = ctx.attempt(lambda: o.update(m, padding=True))
    ctx.eq('C01/%s/chaining-value-with-coinciding-words' % a, r, ('ok', mdsha.md_hash(a, m, None, h0=h0, count0=c0)))


def chain_kats():
    import json, os
    p = os.path.join(os.path.dirname(os.path.dirname(os.path.dirname(os.path.abspath(__file__)))), 'kats', 'chain_coincidences.json')
    return json.load(open(p)) if os.path.exists(p) else []


def pts_chain(tier):
    return list(range(len(chain_kats())))


def run_chain(ctx, pt):
    """messages (found once, by search) whose first compression produces a chaining word equal to one of the OLD chaining
    words at another position - a 2^-32 coincidence per pair that no message family reaches; re-verified before use"""
    import struct
    e = chain_kats()[pt]
    a, m = e['alg'], bytes.fromhex(e['message'])
    le = a in ('md4', 'md5')
    iv = {'md4': mdsha.IV1[:4], 'md5': mdsha.IV1[:4], 'sha1': mdsha.IV1, 'sha256': mdsha.IV['sha256']}[a]
    new = struct.unpack(('<%dI' if le else '>%dI') % len(iv), ref(a, m))
    if new[e['new_word']] != iv[e['equals_old_word']]:
        raise InternalError('chain_coincidences.json entry %d is not a coincidence under the reference' % pt)
    K = 'C01/%s/new-chaining-word-equal-to-an-old-one' % a
    ctx.eq(K, ctx.attempt(lambda: mk(a)(m)), ('ok', ref(a, m)))
    ctx.eq(K, ctx.attempt(lambda: reused(a)(m)), ('ok', ref(a, m)))
    # the same first block spelled out (message || its own padding), followed by more data: the coincidence is then in a
    # non-final block and the wrong chaining value would be carried on
    blk = m + b'\x80' + bytes(64 - 8 - 1 - 8) + struct.pack('<Q' if le else '>Q', 64)
    for tail in (b'', b'abc', expander(130, 7)):
        ctx.eq(K + '/in-a-non-final-block', ctx.attempt(lambda: mk(a)(blk + tail)), ('ok', ref(a, blk + tail)))
    o = mk(a)
    o.initstate()
    ctx.attempt(lambda: o.update(blk, padding=False))
    ctx.eq(K + '/streaming', ctx.attempt(lambda: o.update(b'xyz', padding=True)), ('ok', ref(a, blk + b'xyz')))


# ---- what was used first in the process -------------------------------------------------------------------------

def _first_uses():
    from crysp.blake import Blake, Blake2
    from crysp.hmac import HMAC
    from crysp.sha import SHA2, SHA3
    f = {a: (lambda a: lambda: mk(a)(b'x' * 70, bitlen=557))(a) for a in OUTLEN}
    f.update({'Blake-%d' % n: (lambda n: lambda: Blake(n)(b'x'))(n) for n in (224, 256, 384, 512)})
    f.update({'Blake2(%d)' % n: (lambda n: lambda: Blake2(n)(b'x'))(n) for n in (224, 256, 384, 512)})
    f['HMAC-sha512_224'] = lambda: HMAC(mk('sha512_224'), b'k' * 200)(b'x')
    f['HMAC-md5'] = lambda: HMAC(mk('md5'), b'k')(b'x')
    f['SHA3-384'] = lambda: SHA3(384)(b'x')
    f['constructed only: every SHA-2 variant in descending order'] = lambda: [mk(a) for a in ('sha512_256', 'sha512_224', 'sha512', 'sha384', 'sha256', 'sha224')] and None
    f['unfinished update on SHA-512/256'] = lambda: mk('sha512_256').update(b'y' * 128)
    return f


def pts_firstuse(tier):
    return [(f, a) for f in sorted(_first_uses()) for a in OUTLEN if f != a]


def run_firstuse(ctx, pt):
    """a fresh process in which another hash configuration (of this property or not) is used first"""
    f, a = pt
    ctx.attempt(_first_uses()[f])
    m = expander(150, 3)
    ctx.eq('C01/%s/after-another-configuration-was-used-first-in-the-process' % a, ctx.attempt(lambda: mk(a)(m)), ('ok', ref(a, m)))
    ctx.eq('C01/%s/after-another-configuration-was-used-first-in-the-process' % a, ctx.attempt(lambda: mk(a)(m, bitlen=1003)), ('ok', ref(a, m, 1003)))


def selftest():
    try:
        n = mdsha.selftest()
    except AssertionError as e:
        raise InternalError('reference self-test failed: %r' % (e,))
    return {'mdsha_reference_vs_hashlib_and_KATs': n}


def subchecks():
    return [
        Sub('bit-lengths', pts_lengths, run_lengths, engine='P',
            bound='10 algorithms x every bit length 1..2B+cs+16 x 3 data patterns (quick: +-9 bits around 0, B-cs-1, B, 2B-cs-1, 2B, one pattern)'),
        Sub('byte-lengths', pts_bytes, run_bytes, engine='P',
            bound='every byte length 0..4 blocks+1 (quick 0..2 blocks+9) with the ramp; 5 more patterns at 0..B/32+1 bytes; long messages of 5, 8, 16, 17, 33 (thorough 64, 65, 129) blocks -1/0/+1 byte; with and without bitlen=8n'),
        Sub('value-relations', pts_values, run_values, engine='P', exhaustive=False,
            bound='messages of 1-2 blocks whose words sum to zero modulo 2^w (random words + negated sum, two top-bit words, 1 and all-ones) with and without a tail and shifted by one byte; thorough: one MD4/MD5 message of more than 1 MiB'),
        Sub('container', pts_container, run_container, engine='P',
            bound='bit length L near every boundary, container 1 byte / 1 block longer than ceil(L/8)'),
        Sub('long-bit-lengths', pts_longbits, run_longbits, engine='P', exhaustive=False, chunk=1,
            bound='10 algorithms x messages of 1025 blocks + 3 bytes with explicit bit lengths 8n-3, 8n-5, 8n, 8n-8, exact and longer containers (thorough: 4097 blocks for all, 16385 / 8193 blocks = more than 1 MiB for 6 algorithms)'),
        Sub('reject', pts_reject, run_reject, engine='P', bound='bitlen = 8|M| + {1,7,8,B} for |M| in {0,1,B/8-cs/8,B/8}'),
        Sub('chaining-coincidences', pts_chain, run_chain, engine='P',
            bound='kats/chain_coincidences.json: MD5, MD4, SHA-1 and SHA-256 messages whose first compression yields a new chaining word equal to an old one at another position (found by tools/find_chain_coincidence.py over 2^31 messages each, re-verified per run): as the only block, as a non-final block with 3 tails, and streamed'),
        Sub('first-use-order', pts_firstuse, run_firstuse, engine='H', chunk=1,
            bound='every pair (configuration used first in a fresh process, algorithm): 23 first uses (each of the 10 algorithms with a bit length, every BLAKE / Blake2 size, HMAC over SHA-512/224 and MD5, SHA3-384, objects constructed but never called, an unfinished update) x 10 algorithms, byte and bit-length call vs reference'),
        Sub('preset-chaining-values', pts_preset_h, run_preset_h, engine='H',
            bound='live object whose chaining words are preset to 6 coinciding patterns (all equal, zero, all-ones, H[i]==H[i+n/2], H[0]==H[1], tail equal to earlier words), then update(M, padding=True) with |M| in {0, 3, one block+1}'),
        Sub('preset-counters', pts_preset, run_preset, engine='H',
            bound='live object with preset chaining value and bit counter in {2^32-B, 2^32-2B, 2^32-8, 2^33, 2^40 | 2^64-B, 2^64-2B, 2^65} then update(M, padding=True), |M| in 6 classes (byte lengths: a bit length on a continued stream is not defined by the library API)'),
    ]


ASSUMPTIONS = ['hashlib (OpenSSL) md5/sha1/sha2 is the standard for byte-aligned messages; the bit-granular reference mc/refs/mdsha.py (constants derived from prime roots / sines) is bound to hashlib on 2400 messages, RFC 1320, FIPS 180 (1993) and two NIST SHAVS bit-oriented vectors at the start of every run',
               'bitlen=0 is not exercised (the property quantifies over 0 < L)']
