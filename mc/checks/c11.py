"""C11 - BLAKE and BLAKE2 digests equal their specifications for all inputs and parameters."""
import hashlib, itertools
from mc.engine import Sub, InternalError
from mc.common import ramp, expander, zero_words
from mc.refs import blake as RB

SIZES = (224, 256, 384, 512)


def geom(n):
    return (1024, 128) if n > 256 else (512, 64)


_POOL = {}


def reused(key, make):
    """an object that has already answered another call with non-default per-call options: the judged call is its second call"""
    o = make()
    try:
        if key in ('s', 'b'):
            o(b'\xa5' * 150, outlen=9, salt=b'\x33' * (o.wsize // 4), fanout=3, depth=2, inner=5)
        else:
            o(b'\xa5' * 150, 77, bitlen=1197)
    except Exception:
        pass
    return o


def data(kind, n):
    return {'ramp': lambda: ramp(n, 13, n), 'exp': lambda: expander(n, 1), 'ff': lambda: b'\xff' * n}[kind]()


def boundaries(n):
    B, cs = geom(n)
    return [0, B - cs - 2, B, 2 * B - cs - 2, 2 * B]


def pts_bits(tier):
    pts = []
    for n in SIZES:
        B, cs = geom(n)
        if tier == 'thorough':
            for L in range(0, 2 * B + cs + 19):
                for d in ('ramp', 'exp'):
                    pts.append((n, L, d))
        else:
            Ls = set()
            for c in boundaries(n):
                Ls |= {c + d for d in range(-9, 10) if c + d >= 0}
            for L in sorted(Ls):
                pts.append((n, L, 'ramp'))
    return pts


def run_bits(ctx, pt):
    from crysp.blake import Blake
    n, L, d = pt
    B, cs = geom(n)
    m = data(d, (L + 7) // 8)
    r = L % B
    ctx.shape((n, L // B, r > B - cs - 2, r == B - cs - 2, r == 0, L % 8 != 0))
    if L == 0:
        got = ctx.attempt(lambda: Blake(n)(b''))
    else:
        got = ctx.attempt(lambda: Blake(n)(m, bitlen=L))
    ctx.eq('C11/blake%d/bit-length-digest' % n, got, ('ok', RB.blake(n, m, L)))
    if L:
        ctx.eq('C11/blake%d/bit-length-digest/reused-object' % n, ctx.attempt(lambda: reused(n, lambda: Blake(n))(m, bitlen=L)), ('ok', RB.blake(n, m, L)))
    if L % 8 == 0 and L:
        ctx.eq('C11/blake%d/byte-digest' % n, ctx.attempt(lambda: Blake(n)(m)), ('ok', RB.blake(n, m)))


def pts_bytes(tier):
    pts = []
    for n in SIZES:
        B, cs = geom(n)
        for ln in range(0, (4 * B // 8 + 2) if tier == 'thorough' else (2 * B // 8 + 3)):
            pts.append((n, ln))
        for k in (5, 8, 16, 17, 33) + ((64, 65) if tier == 'thorough' else ()):
            for dn in (-1, 0, 1):
                pts.append((n, k * B // 8 + dn))
    return pts


def run_bytes(ctx, pt):
    from crysp.blake import Blake
    n, ln = pt
    m = ramp(ln, 7, ln)
    r = ctx.attempt(lambda: Blake(n)(m))
    ctx.eq('C11/blake%d/byte-digest' % n, r, ('ok', RB.blake(n, m)))
    if ln % 16 in (0, 1):
        zm = zero_words(ln, 8 if n > 256 else 4, 128 if n > 256 else 64)
        ctx.eq('C11/blake%d/byte-digest/zero-words' % n, ctx.attempt(lambda: Blake(n)(zm)), ('ok', RB.blake(n, zm)))
    if r[0] == 'ok':
        ctx.eq('C11/blake%d/digest-length' % n, len(r[1]), n // 8)


def salts(n):
    w = 64 if n > 256 else 32
    return [0, 1, (1 << (4 * w)) - 1, int.from_bytes(expander(4 * w // 8, 3), 'big'), 1 << (3 * w), 1 << w]


def pts_salt(tier):
    pts = []
    for n in SIZES:
        B, cs = geom(n)
        Ls = set()
        for c in boundaries(n):
            Ls |= {c + d for d in ((-9, -1, 0, 1, 7, 8) if tier == 'quick' else range(-9, 10)) if c + d > 0}
        for L in sorted(Ls):
            for si in range(len(salts(n))):
                for extra in (0, 1, B // 8):
                    if tier == 'quick' and si > 3 and extra:
                        continue
                    pts.append((n, L, si, extra))
    return pts


def run_salt(ctx, pt):
    from crysp.blake import Blake
    n, L, si, extra = pt
    s = salts(n)[si]
    m = data('exp', (L + 7) // 8)
    r = ctx.attempt(lambda: Blake(n)(m + b'\x5a' * extra, s, bitlen=L))
    ctx.eq('C11/blake%d/%s' % (n, 'salted-digest' if s else 'prefix-of-longer-container'), r, ('ok', RB.blake(n, m, L, salt=s)))
    r = ctx.attempt(lambda: reused(n, lambda: Blake(n))(m + b'\x5a' * extra, s, bitlen=L))
    ctx.eq('C11/blake%d/salted-digest/reused-object' % n, r, ('ok', RB.blake(n, m, L, salt=s)))
    r = ctx.attempt(lambda: reused(n, lambda: Blake(n))(m[:5]))
    ctx.eq('C11/blake%d/unsalted-after-salted/reused-object' % n, r, ('ok', RB.blake(n, m[:5])))


def pts_single(tier):
    return [(n, ln) for n in SIZES for ln in (0, 1, 3, 55, 56, 64, 111, 112, 129)]


def run_single(ctx, pt):
    import crysp.blake as LB
    n, ln = pt
    m = expander(ln, 2)
    o = getattr(LB, 'blake%d' % n)
    ctx.eq('C11/blake%d/module-singleton' % n, ctx.attempt(lambda: o(m)), ('ok', RB.blake(n, m)))


def pts_preset(tier):
    pts = []
    for n in SIZES:
        B, cs = geom(n)
        w = cs // 2
        for c0 in ((1 << w) - B, (1 << w) - 2 * B, (1 << w), (1 << w) - 8, (1 << (w + 1)) + B, (1 << (2 * w)) - 2 * B):
            for ln in (0, 1, B // 8 - cs // 8 - 1, B // 8 - cs // 8, B // 8, B // 8 + 1):
                pts.append((n, c0, ln))
        for k in range(11, 2 * w):
            pts.append((n, (1 << k) - B, B // 8 + 1))
    return pts


def run_preset(ctx, pt):
    """non-initial state: chaining value and bit counter preset, so that t crosses the word boundary"""
    from crysp.blake import Blake
    n, c0, ln = pt
    for variant in (0, 1, 2):
        o = Blake(n)
        o.initstate()
        h0 = [(x * 3 + 1) & o.H.mask for x in o.H.ival]
        if variant == 1:
            h0 = [h0[0]] * 8                      # chaining words that all coincide
        elif variant == 2:
            h0 = h0[:4] + h0[:4]                  # H[i] == H[i+4]
        o.H.ival[:] = h0
        o.padmethod.bitcnt = c0
        m = ramp(ln, 3, 1)
        r = ctx.attempt(lambda: o.update(m, padding=True))
        ctx.eq('C11/blake%d/%s' % (n, 'counter-beyond-one-word' if variant == 0 else 'chaining-value-with-coinciding-words'), r,
               ('ok', RB.blake(n, m, None, 0, h0=h0, t0=c0)))


def pts_stream_salt(tier):
    return [(n, k) for n in SIZES for k in (2, 3, 4)]


def run_stream_salt(ctx, pt):
    """incremental use with a (non-palindromic) salt: initstate(salt), k block-aligned updates, closing update"""
    from crysp.blake import Blake
    n, k = pt
    B, cs = geom(n)
    w = cs // 2
    salt = int.from_bytes(expander(4 * w // 8, 11), 'big')
    M = expander(k * B // 8 + 5, 12)
    o = Blake(n)

    def f():
        o.initstate(salt=salt)
        for j in range(k):
            o.update(M[j * B // 8:(j + 1) * B // 8], padding=False)
        return o.update(M[k * B // 8:], padding=True)
    ctx.eq('C11/blake%d/salted-streaming' % n, ctx.attempt(f), ('ok', RB.blake(n, M, salt=salt)))


def b2_compress_ref(v, h, blk, t, last):
    """RFC 7693 compression F"""
    w = 64 if v == 'b' else 32
    mask = (1 << w) - 1
    R = (32, 24, 16, 63) if v == 'b' else (16, 12, 8, 7)
    rounds = 12 if v == 'b' else 10
    iv = RB.IV512 if v == 'b' else RB.IV256
    m = [int.from_bytes(blk[i * w // 8:(i + 1) * w // 8], 'little') for i in range(16)]
    x = list(h) + list(iv)
    x[12] ^= t & mask
    x[13] ^= (t >> w) & mask
    if last:
        x[14] ^= mask

    def ror(a, n_):
        return ((a >> n_) | (a << (w - n_))) & mask

    def G(a, b, c, d, p, q):
        x[a] = (x[a] + x[b] + p) & mask; x[d] = ror(x[d] ^ x[a], R[0]); x[c] = (x[c] + x[d]) & mask; x[b] = ror(x[b] ^ x[c], R[1])
        x[a] = (x[a] + x[b] + q) & mask; x[d] = ror(x[d] ^ x[a], R[2]); x[c] = (x[c] + x[d]) & mask; x[b] = ror(x[b] ^ x[c], R[3])
    for r in range(rounds):
        sg = RB.SIGMA[r % 10]
        G(0, 4, 8, 12, m[sg[0]], m[sg[1]]); G(1, 5, 9, 13, m[sg[2]], m[sg[3]]); G(2, 6, 10, 14, m[sg[4]], m[sg[5]]); G(3, 7, 11, 15, m[sg[6]], m[sg[7]])
        G(0, 5, 10, 15, m[sg[8]], m[sg[9]]); G(1, 6, 11, 12, m[sg[10]], m[sg[11]]); G(2, 7, 8, 13, m[sg[12]], m[sg[13]]); G(3, 4, 9, 14, m[sg[14]], m[sg[15]])
    return [h[i] ^ x[i] ^ x[i + 8] for i in range(8)]


def pts_b2craft(tier):
    return [(v, col, site, tgt) for v in ('s', 'b') for col in range(4) for site in range(4) for tgt in range(4)]


def run_b2craft(ctx, pt):
    """one-block messages in which one message word is solved for so that the input of one of the four rotations of a
    first-round G call is 0, all-ones, 1 or the top bit (intermediate value classes no data pattern reaches by chance)"""
    v, col, site, tgt = pt
    w = 64 if v == 'b' else 32
    mask = (1 << w) - 1
    R = (32, 24, 16, 63) if v == 'b' else (16, 12, 8, 7)
    T = [0, mask, 1, 1 << (w - 1)][tgt]
    bl = 128 if v == 'b' else 64
    n = bl - 3                      # a short single block: counter t = n, last block flag set
    base = bytearray(expander(bl, 50 + col))
    for i in range(n, bl):
        base[i] = 0
    iv = RB.IV512 if v == 'b' else RB.IV256
    h = list(iv)
    h[0] ^= 0x01010000 ^ (w // 8 * 8 if False else (64 if v == 'b' else 32))
    m = [int.from_bytes(base[i * w // 8:(i + 1) * w // 8], 'little') for i in range(16)]
    x = list(h) + list(iv)
    x[12] ^= n
    x[14] ^= mask
    rol = lambda a, k: ((a << k) | (a >> (w - k))) & mask
    ror = lambda a, k: ((a >> k) | (a << (w - k))) & mask
    a, b, c, d = x[col], x[col + 4], x[col + 8], x[col + 12]
    ix, iy = 2 * col, 2 * col + 1          # sigma[0] is the identity
    if site == 0:            # input of the first rotation: d ^ (a + b + mx)
        m[ix] = ((T ^ d) - a - b) & mask
    elif site == 1:          # input of the second rotation: b ^ (c + d'), d' = ror(d ^ a', R0)
        d1 = ((T ^ b) - c) & mask
        a1 = d ^ rol(d1, R[0])
        m[ix] = (a1 - a - b) & mask
    else:
        a1 = (a + b + m[ix]) & mask
        d1 = ror(d ^ a1, R[0])
        c1 = (c + d1) & mask
        b1 = ror(b ^ c1, R[1])
        if site == 2:        # input of the third rotation: d' ^ (a' + b' + my)
            m[iy] = ((T ^ d1) - a1 - b1) & mask
        else:                # input of the fourth rotation: b' ^ (c' + d''), d'' = ror(d' ^ a'', R2)
            d2 = ((T ^ b1) - c1) & mask
            a2 = d1 ^ rol(d2, R[2])
            m[iy] = (a2 - a1 - b1) & mask
    M = b''.join(x_.to_bytes(w // 8, 'little') for x_ in m)[:n]
    # non-vacuity: recompute the four rotation inputs of this column forwards and insist that the target is hit
    a1 = (a + b + m[ix]) & mask
    i0 = d ^ a1
    d1 = ror(i0, R[0])
    c1 = (c + d1) & mask
    i1 = b ^ c1
    b1 = ror(i1, R[1])
    a2 = (a1 + b1 + m[iy]) & mask
    i2 = d1 ^ a2
    d2 = ror(i2, R[2])
    i3 = b1 ^ ((c1 + d2) & mask)
    if (i0, i1, i2, i3)[site] != T:
        raise InternalError('crafted BLAKE2 message does not reach its target %r' % (pt,))
    ctx.extra['crafted_targets_hit'] += 1
    # the solved word must lie inside the message (it does: words 0..7 of a block of bl-3 bytes)
    ctx.eq('C11/blake2%s/crafted-rotation-input' % v, ctx.attempt(lambda: mk2(v)(M)), ('ok', h2(v)(M).digest()))


def pts_bcraft(tier):
    return [(n, col, site, tgt) for n in SIZES for col in range(4) for site in range(6) for tgt in range(4)]


def run_bcraft(ctx, pt):
    """BLAKE-n one-block messages in which a message word is solved so that, in a first-round column G call, the result of
    one of the two additions or the input of one of the four rotations is 0 / all-ones / 1 / top bit"""
    from crysp.blake import Blake
    n, col, site, tgt = pt
    big = n > 256
    w = 64 if big else 32
    mask = (1 << w) - 1
    R = (32, 25, 16, 11) if big else (16, 12, 8, 7)
    c = RB.C64 if big else RB.C32
    T = [0, mask, 1, 1 << (w - 1)][tgt]
    wb = w // 8
    nbytes = 9 * wb                  # words 0..8 are message bytes; the rest is padding and length
    L = 8 * nbytes
    h = list({224: RB.IV224, 256: RB.IV256, 384: RB.IV384, 512: RB.IV512}[n])
    m = [int.from_bytes(expander(wb, 70 + i), 'big') for i in range(9)]
    v = h + [c[0], c[1], c[2], c[3], L ^ c[4], L ^ c[5], c[6], c[7]]     # salt 0, counter = L (fits the low word)
    rol = lambda a, k: ((a << k) | (a >> (w - k))) & mask
    ror = lambda a, k: ((a >> k) | (a << (w - k))) & mask
    a, b, cc, d = v[col], v[col + 4], v[col + 8], v[col + 12]
    ix, iy = 2 * col, 2 * col + 1     # sigma[0] is the identity: first add uses m[ix]^c[iy], second m[iy]^c[ix]
    if site == 0:                     # result of the first addition
        m[ix] = ((T - a - b) & mask) ^ c[iy]
    elif site == 1:                   # input of the first rotation d ^ a'
        m[ix] = (((T ^ d) - a - b) & mask) ^ c[iy]
    elif site == 2:                   # input of the second rotation b ^ (c + d')
        d1 = ((T ^ b) - cc) & mask
        a1 = d ^ rol(d1, R[0])
        m[ix] = ((a1 - a - b) & mask) ^ c[iy]
    else:
        a1 = (a + b + (m[ix] ^ c[iy])) & mask
        d1 = ror(d ^ a1, R[0])
        c1 = (cc + d1) & mask
        b1 = ror(b ^ c1, R[1])
        if site == 3:                 # result of the second addition
            m[iy] = ((T - a1 - b1) & mask) ^ c[ix]
        elif site == 4:               # input of the third rotation d' ^ a''
            m[iy] = (((T ^ d1) - a1 - b1) & mask) ^ c[ix]
        else:                         # input of the fourth rotation b' ^ (c' + d'')
            d2 = ((T ^ b1) - c1) & mask
            a2 = d1 ^ rol(d2, R[2])
            m[iy] = ((a2 - a1 - b1) & mask) ^ c[ix]
    # non-vacuity: recompute forwards
    a1 = (a + b + (m[ix] ^ c[iy])) & mask
    d1 = ror(d ^ a1, R[0]); c1 = (cc + d1) & mask; b1 = ror(b ^ c1, R[1])
    a2 = (a1 + b1 + (m[iy] ^ c[ix])) & mask
    d2 = ror(d1 ^ a2, R[2]); c2 = (c1 + d2) & mask
    if (a1, d ^ a1, b ^ c1, a2, d1 ^ a2, b1 ^ c2)[site] != T:
        raise InternalError('crafted BLAKE message does not reach its target %r' % (pt,))
    ctx.extra['crafted_targets_hit'] += 1
    M = b''.join(x.to_bytes(wb, 'big') for x in m)
    ctx.eq('C11/blake%d/crafted-addition-or-rotation-input' % n, ctx.attempt(lambda: Blake(n)(M)), ('ok', RB.blake(n, M)))


def pts_b2preset(tier):
    pts = []
    for v in ('s', 'b'):
        w = 64 if v == 'b' else 32
        bl = 128 if v == 'b' else 64
        for k in range(10, 2 * w):
            pts.append((v, (1 << k) - bl, 1))
            if k % 8 == 0 or k in (w - 1, w, w + 1, 2 * w - 4, 2 * w - 3, 2 * w - 2):
                pts.append((v, (1 << k) - bl, bl + 1))
                pts.append((v, (1 << k), 3))
    return pts


def run_b2preset(ctx, pt):
    """non-initial state: byte counter preset just below every power of two 2^10..2^(2w)-1, then a closing update"""
    v, t0, n = pt
    bl = 128 if v == 'b' else 64
    w = 64 if v == 'b' else 32
    o = mk2(v)
    o.initstate()
    h0 = [int(x) for x in o.H.ival]
    o.padmethod.bitcnt = 8 * t0
    M = expander(n, 13)
    r = ctx.attempt(lambda: o.update(M, padding=True))
    h = list(h0)
    t = t0
    blocks = [M[i:i + bl] for i in range(0, len(M), bl)] or [b'']
    for i, b_ in enumerate(blocks):
        t += len(b_)
        h = b2_compress_ref(v, h, b_.ljust(bl, b'\0'), t % (1 << (2 * w)), i == len(blocks) - 1)
    exp = b''.join(x.to_bytes(w // 8, 'little') for x in h)
    ctx.eq('C11/blake2%s/counter-beyond-one-word' % v, r, ('ok', exp))


# ---- BLAKE2 -----------------------------------------------------------------------------

def h2(v):
    return hashlib.blake2b if v == 'b' else hashlib.blake2s


def mk2(v):
    from crysp.blake import Blake2
    return Blake2(512 if v == 'b' else 256)


def pts_b2len(tier):
    pts = []
    for v in ('s', 'b'):
        bl = 128 if v == 'b' else 64
        for ln in range(0, 4 * bl + 2):
            pts.append((v, ln))
        for k in (5, 8, 16, 17, 33) + ((64, 65, 257) if tier == 'thorough' else ()):
            for dn in (-1, 0, 1):
                pts.append((v, k * bl + dn))
    return pts


def run_b2len(ctx, pt):
    v, ln = pt
    bl = 128 if v == 'b' else 64
    for m in (ramp(ln, 11, ln), expander(ln, 5)) + ((zero_words(ln, 8 if v == 'b' else 4, bl),) if ln % 16 in (0, 1) else ()):
        r = ctx.attempt(lambda: mk2(v)(m))
        cls = 'one-block' if ln <= bl else ('whole-blocks' if ln % bl == 0 else 'multi-block')
        ctx.eq('C11/blake2%s/%s' % (v, cls), r, ('ok', h2(v)(m).digest()))
        ctx.eq('C11/blake2%s/%s/reused-object' % (v, cls), ctx.attempt(lambda: reused(v, lambda: mk2(v))(m)), ('ok', h2(v)(m).digest()))


def pts_b2par(tier):
    pts = []
    for v in ('s', 'b'):
        top = 64 if v == 'b' else 32
        for outlen in range(1, top + 1):
            pts.append((v, 'outlen', outlen))
        for sp in range(4):
            pts.append((v, 'saltpers', sp))
        fan = (0, 1, 2, 255)
        dep = (1, 2, 255)
        leaf = (0, 1, (1 << 32) - 1)
        nof = (0, 1, (1 << 64) - 1 if v == 'b' else (1 << 48) - 1)
        ndp = (0, 1, 255)
        inn = (0, 1, top)
        for t in itertools.product(fan, dep, leaf, nof, ndp, inn):
            if tier == 'quick' and sum(1 for a, b in zip(t, (1, 1, 0, 0, 0, 0)) if a != b) > 2:
                continue
            pts.append((v, 'tree') + t)
        # parameter blocks of real tree nodes: leaves, an inner node, the root (node depth = depth-1, offset 0), unlimited fanout
        for t in ((2, 2, 4096, 0, 0, top), (2, 2, 4096, 1, 0, top), (2, 2, 4096, 0, 1, top), (4, 3, 1024, 3, 1, 16), (4, 3, 1024, 0, 2, 16),
                  (0, 255, 0, 0, 254, top), (2, 2, 0, 0, 1, 1), (255, 2, 1, 0, 1, top)):
            pts.append((v, 'tree') + t)
    return pts


def run_b2par(ctx, pt):
    _run_b2par(ctx, pt, mk2, '')
    # the same parameter calls on one long-lived object, each followed by a default call: parameters apply to their call only
    _run_b2par(ctx, pt, lambda v: reused(v, lambda: mk2(v)), '/reused-object')
    v = pt[0]
    ctx.eq('C11/blake2%s/default-call-after-parameters/reused-object' % v, ctx.attempt(lambda: reused(v, lambda: mk2(v))(b'abc')), ('ok', h2(v)(b'abc').digest()))


def _run_b2par(ctx, pt, mk2, sfx):
    v = pt[0]
    bl = 128 if v == 'b' else 64
    sl = 16 if v == 'b' else 8
    msgs = [b'', b'abc', expander(3 * bl + 5, 6)]
    if pt[1] == 'outlen':
        for m in msgs:
            r = ctx.attempt(lambda: mk2(v)(m, outlen=pt[2]))
            ctx.eq('C11/blake2%s/outlen%s' % (v, sfx), r, ('ok', h2(v)(m, digest_size=pt[2]).digest()))
            if r[0] == 'ok':
                ctx.eq('C11/blake2%s/outlen-length' % v, len(r[1]), pt[2])
    elif pt[1] == 'saltpers':
        salt = b'' if pt[2] & 1 == 0 else ramp(sl, 3, 0x41)
        pers = b'' if pt[2] & 2 == 0 else ramp(sl, 5, 0x61)
        for m in msgs:
            r = ctx.attempt(lambda: mk2(v)(m, salt=salt, pers=pers))
            ctx.eq('C11/blake2%s/salt-personalization%s' % (v, sfx), r, ('ok', h2(v)(m, salt=salt, person=pers).digest()))
            r = ctx.attempt(lambda: mk2(v)(m, salt=salt, pers=pers, outlen=20))
            ctx.eq('C11/blake2%s/salt-personalization%s' % (v, sfx), r, ('ok', h2(v)(m, salt=salt, person=pers, digest_size=20).digest()))
    else:
        fan, dep, leaf, nof, ndp, inn = pt[2:]
        for m in (msgs[1], msgs[2]):
            r = ctx.attempt(lambda: mk2(v)(m, fanout=fan, depth=dep, leafl=leaf, noffset=nof, ndepth=ndp, inner=inn))
            exp = h2(v)(m, fanout=fan, depth=dep, leaf_size=leaf, node_offset=nof, node_depth=ndp, inner_size=inn).digest()
            ctx.eq('C11/blake2%s/tree-parameters%s' % (v, sfx), r, ('ok', exp))


def pts_b2single(tier):
    return [(v, ln) for v in ('s', 'b') for ln in (0, 1, 64, 65, 128, 129, 300)]


def run_b2single(ctx, pt):
    import crysp.blake as LB
    v, ln = pt
    m = expander(ln, 7)
    o = LB.blake2b if v == 'b' else LB.blake2s
    ctx.eq('C11/blake2%s/module-singleton' % v, ctx.attempt(lambda: o(m)), ('ok', h2(v)(m).digest()))


# ---- what was used first in the process -------------------------------------------------------------------------

def _foreign():
    from crysp.sha import SHA1, SHA2, SHA3
    from crysp.md import MD5
    from crysp.blake import Blake, Blake2
    from crysp.hmac import HMAC
    from crysp.skein import Skein
    import crysp.blake as LB
    f = {'SHA2-%d' % n: (lambda n: lambda: SHA2(n)(b'x'))(n) for n in (224, 256, 384, 512)}
    f.update({'SHA2-512/224': lambda: SHA2(512, 224)(b'x'), 'SHA2-512/256': lambda: SHA2(512, 256)(b'x'), 'SHA1': lambda: SHA1(1)(b'x'), 'MD5': lambda: MD5()(b'x'),
              'SHA3-256': lambda: SHA3(256)(b'x'), 'Skein-512': lambda: Skein(512, 512)(b'x'), 'HMAC-SHA2-512/256': lambda: HMAC(SHA2(512, 256), b'k')(b'x')})
    f.update({'Blake-%d' % n: (lambda n: lambda: Blake(n)(b'x', 5))(n) for n in SIZES})
    f.update({'Blake2(%d)' % n: (lambda n: lambda: Blake2(n)(b'x'))(n) for n in SIZES})
    f.update({'Blake2(512) with parameters': lambda: Blake2(512)(b'x', outlen=20, salt=b's' * 16, fanout=2, depth=2), 'blake2s module instance': lambda: LB.blake2s(b'x'),
              'constructed only: SHA2(512,256), Blake2(384), Blake(224)': lambda: (SHA2(512, 256), Blake2(384), Blake(224)) and None})
    return f


def _targets():
    from crysp.blake import Blake, Blake2
    import crysp.blake as LB
    m = expander(150, 3)
    t = {'blake%d' % n: ((lambda n: lambda: Blake(n)(m))(n), RB.blake(n, m)) for n in SIZES}
    t['blake256 salted'] = (lambda: Blake(256)(m, 0x0102030405060708090a0b0c0d0e0f10), RB.blake(256, m, salt=0x0102030405060708090a0b0c0d0e0f10))
    t['blake2b'] = (lambda: Blake2(512)(m), hashlib.blake2b(m).digest())
    t['blake2s'] = (lambda: Blake2(256)(m), hashlib.blake2s(m).digest())
    t['blake2b module instance'] = (lambda: LB.blake2b(m), hashlib.blake2b(m).digest())
    t['blake2s module instance'] = (lambda: LB.blake2s(m), hashlib.blake2s(m).digest())
    t['blake2b outlen=48'] = (lambda: Blake2(512)(m, outlen=48), hashlib.blake2b(m, digest_size=48).digest())
    t['blake2s outlen=28'] = (lambda: Blake2(256)(m, outlen=28), hashlib.blake2s(m, digest_size=28).digest())
    return t


def pts_firstuse(tier):
    return [(a, b) for a in sorted(_foreign()) for b in sorted(_targets())]


def run_firstuse(ctx, pt):
    """a fresh process in which some other hash configuration (in or outside this property) is used first"""
    a, b = pt
    ctx.attempt(_foreign()[a])
    f, exp = _targets()[b]
    ctx.eq('C11/%s/after-another-configuration-was-used-first-in-the-process' % b.split(' ')[0], ctx.attempt(f), ('ok', exp))


def selftest():
    try:
        return {'blake_reference_submission_vectors': RB.selftest()}
    except AssertionError as e:
        raise InternalError('reference self-test failed: %r' % (e,))


def subchecks():
    return [
        Sub('blake-bit-lengths', pts_bits, run_bits, engine='P',
            bound='BLAKE-224/256/384/512 x every bit length 0..2B+cs+18 x 2 patterns (quick: +-9 around 0, B-cs-2, B, 2B-cs-2, 2B)'),
        Sub('blake-byte-lengths', pts_bytes, run_bytes, engine='P', bound='every byte length 0..4 blocks+1 (quick 0..2 blocks+2); 5, 8, 16, 17, 33 (thorough 64, 65) blocks -1/0/+1 byte'),
        Sub('blake-salt-container', pts_salt, run_salt, engine='P',
            bound='salt in {0,1,all-ones,pattern,2^(3w),2^w} x container {exact, +1 byte, +1 block} at bit lengths around every boundary'),
        Sub('blake-singletons', pts_single, run_single, engine='P', bound='module-level blake224..512 on 9 lengths'),
        Sub('blake-preset-counters', pts_preset, run_preset, engine='H',
            bound='live object with preset chaining value and bit counter around 2^w, 2^(w+1), 2^(2w)-2B, then update(M, padding=True) with |M| in 6 classes; reference compression gets the explicit counter (0 for a padding-only block)'),
        Sub('blake-salted-streaming', pts_stream_salt, run_stream_salt, engine='H', bound='initstate(salt) with a non-palindromic salt, 2..4 block-aligned updates, closing update, 4 digest sizes'),
        Sub('blake-crafted-words', pts_bcraft, run_bcraft, engine='P',
            bound='BLAKE-224/256/384/512 one-block messages in which a message word is solved so that each of the 2 addition results and 4 rotation inputs of each first-round column G call is 0 / all-ones / 1 / top bit (384 messages, each verified to hit its target) vs the reference'),
        Sub('blake2-crafted-words', pts_b2craft, run_b2craft, engine='P',
            bound='BLAKE2s/2b one-block messages in which a message word is solved so that the input of each of the 4 rotations of each of the 4 first-round column G calls is 0 / all-ones / 1 / top bit (128 messages) vs hashlib'),
        Sub('blake2-preset-counters', pts_b2preset, run_b2preset, engine='H',
            bound='BLAKE2s/2b live object with the byte counter preset to 2^k-blocklen for every k in 10..2w-1 (and 2^k at the word boundaries), closing update of 1 byte / one block+1 / 3 bytes; RFC 7693 compression written out as reference'),
        Sub('blake2-lengths', pts_b2len, run_b2len, engine='P', bound='BLAKE2s/2b x every byte length 0..4 blocks+1 and 5, 8, 16, 17, 33 (thorough 64, 65, 257) blocks -1/0/+1 byte x 2 patterns vs hashlib'),
        Sub('blake2-parameters', pts_b2par, run_b2par, engine='P',
            bound='every outlen 1..32/64 on 3 messages; salt/personalization in {empty, full}^2 (+outlen 20); fanout{0,1,2,255} x depth{1,2,255} x leaf{0,1,2^32-1} x node offset{0,1,max} x node depth{0,1,255} x inner{0,1,max}: full product (quick: at most 2 non-default) on a 1-block and a 3-block message vs hashlib'),
        Sub('first-use-order', pts_firstuse, run_firstuse, engine='H', chunk=1,
            bound='every pair (configuration used first in a fresh process, BLAKE / BLAKE2 call): 22 first uses (every SHA-2 size incl. 512/t, SHA-1, MD5, SHA-3, Skein, HMAC, every BLAKE size with a salt, Blake2 of every accepted size, parameterised BLAKE2, objects constructed but never called) x 11 judged calls vs reference'),
        Sub('blake2-singletons', pts_b2single, run_b2single, engine='P', bound='module-level blake2b/blake2s on 7 lengths'),
    ]


ASSUMPTIONS = ['hashlib.blake2b/blake2s is RFC 7693; reference BLAKE (constants derived from pi and prime roots) bound to the 8 submission vectors each run',
               'BLAKE salt is an integer whose big-endian 4-word encoding is s0..s3; BLAKE2 salt/personalization exercised empty or full length only; BLAKE2 key not exercised (the library only has a key-length parameter field)']
