"""C15 - CRC-32 equals the standard; generic reflected CRC equals bit-by-bit division; forging helpers hit any target."""
import zlib, struct
from mc.engine import Sub, HSystem, hsub, canon
from mc.checks.firstuse import firstuse_sub
import importlib
from mc.common import ramp, expander, DATA


def bitwise_crc(P, N, data, init, final):
    """reflected CRC by bit-by-bit polynomial division"""
    r = init & ((1 << N) - 1)
    for b in data:
        r ^= b
        for _ in range(8):
            r = (r >> 1) ^ P if r & 1 else r >> 1
    return r ^ final


def pts_crc32(tier):
    pts = [('short', hi) for hi in range(256)] + [('short1',)]
    for n in range(3, (129 if tier == 'thorough' else 65)):
        pts.append(('data', n))
    return pts


def run_crc32(ctx, pt):
    from crysp.crc import crc32
    if pt[0] == 'short1':
        ctx.eq('C15/crc32', crc32(b''), zlib.crc32(b''))
        for a in range(256):
            ctx.eq('C15/crc32', crc32(bytes([a])), zlib.crc32(bytes([a])))
    elif pt[0] == 'short':
        for lo in range(256):
            m = bytes([pt[1], lo])
            ctx.eq('C15/crc32', crc32(m), zlib.crc32(m))
    else:
        for m in DATA(pt[1]):
            ctx.eq('C15/crc32', crc32(m), zlib.crc32(m))


def pts_w8(tier):
    return [(p,) for p in range(256)]


def run_w8(ctx, pt):
    from crysp.crc import crc, crc_table
    from crysp.bits import Bits
    P = pt[0]
    T = ctx.call(crc_table, Bits(P, 8))
    ctx.eq('C15/crc-table-shape', (len(T), all(0 <= int(t) < 256 for t in T)), (256, True))
    for init in (0, 0xff):
        for final in (0, 0xff):
            for b in range(256):
                m = bytes([b])
                ctx.eq('C15/generic-crc/width8', crc(m, T, init, final), bitwise_crc(P, 8, m, init, final))
            m = bytes([P, 0x80, 1, P ^ 0xff])
            ctx.eq('C15/generic-crc/width8', crc(m, T, init, final), bitwise_crc(P, 8, m, init, final))


NAMED = {16: 0xA001, 32: 0xEDB88320, 64: 0xC96C5795D7870F42, 8: 0x8C, 24: 0xC60001, 40: 0xAC36000000, 12: 0xF01}


def polys(N, tier):
    ps = {1 << (N - 1), (1 << N) - 1, int.from_bytes(expander(8, 1), 'big') >> (64 - N) | (1 << (N - 1))}
    if tier == 'thorough':
        ps |= {int.from_bytes(expander(8, 2), 'big') >> (64 - N), 1, (1 << (N - 1)) | 1}
    if N in NAMED:
        ps.add(NAMED[N])
    return sorted(ps)


def pts_generic(tier):
    return [(N, P) for N in range(8, 65) for P in polys(N, tier)]


def run_generic(ctx, pt):
    from crysp.crc import crc, crc_table, crc_back_table, crc_back_pos
    from crysp.bits import Bits
    N, P = pt
    mask = (1 << N) - 1
    T = ctx.call(crc_table, Bits(P, N))
    Tb = ctx.call(crc_back_table, Bits(P, N))
    for n in range(0, 10):
        for m in (ramp(n, 29, 7), expander(n, 2)):
            for init in (0, mask):
                for final in (0, mask):
                    c = ctx.attempt(crc, m, T, init, final)
                    ctx.eq('C15/generic-crc', c, ('ok', bitwise_crc(P, N, m, init, final)))
                    # backward computation: from the final value back over the suffix to the register after the prefix
                    if n and c[0] == 'ok' and P >> (N - 1):
                        for pos in range(0, n):
                            fw = bitwise_crc(P, N, m[:pos], init, 0)
                            r = ctx.attempt(crc_back_pos, m, pos, Tb, final, c[1])
                            ctx.eq('C15/crc-backward', r, ('ok', fw))


def pts_samevalue(tier):
    return [(v, ws) for v, ws in ((0xA001, (16, 17, 24, 32, 64)), (0xEDB88320, (32, 33, 40, 64)), (0x8C, (8, 9, 16, 32)), (0xEDB88320, (64, 40, 32)),
                                  (0xA001, (64, 16)), (1, (8, 64, 9)), (0xC96C5795D7870F42, (64,)))]


def run_samevalue(ctx, pt):
    """the same polynomial value used at several widths in one process, in the given order"""
    from crysp.crc import crc, crc_table, crc_back_table, crc_back_pos
    from crysp.bits import Bits
    v, ws = pt
    for N in ws:
        mask = (1 << N) - 1
        T = ctx.call(crc_table, Bits(v, N))
        Tb = ctx.call(crc_back_table, Bits(v, N))
        for m in (b'', b'a', ramp(9, 29, 7), expander(20, 2)):
            for init in (0, mask, mask >> 1):
                for final in (0, mask):
                    c = ctx.attempt(crc, m, T, init, final)
                    ctx.eq('C15/generic-crc/same-polynomial-value-at-several-widths', c, ('ok', bitwise_crc(v, N, m, init, final)))
                    if len(m) > 1 and c[0] == 'ok' and v >> (N - 1):
                        fw = bitwise_crc(v, N, m[:1], init, 0)
                        ctx.eq('C15/crc-backward/same-polynomial-value-at-several-widths', ctx.attempt(crc_back_pos, m, 1, Tb, final, c[1]), ('ok', fw))


def pts_forge(tier):
    pts = []
    for n in range(4, (17 if tier == 'thorough' else 13)):
        for d in ('ramp', 'exp'):
            pts.append((n, d))
    return pts


def targets(data):
    t = [0, 0xffffffff] + [1 << i for i in range(32)] + [zlib.crc32(data)]
    t += [int.from_bytes(expander(4, j), 'big') for j in (1, 2, 3)]
    return t


def run_forge(ctx, pt):
    from crysp.crc import crc32, crc32_fix, crc32_fix_pos, crc32_back_pos, crc, TABLE32_1
    n, d = pt
    data = ramp(n, 17, 9) if d == 'ramp' else expander(n, 3)
    for t in targets(data):
        r = ctx.attempt(crc32_fix, data, t)
        ok = r[0] == 'ok' and isinstance(r[1], bytes) and len(r[1]) == n and r[1][:-4] == data[:-4]
        ctx.ok('C15/crc32_fix/shape', ok, r, 'same length, only the last 4 bytes changed')
        if ok:
            ctx.eq('C15/crc32_fix/target', (zlib.crc32(r[1]), crc32(r[1])), (t, t))
        for pos in range(0, n - 3):
            r = ctx.attempt(crc32_fix_pos, data, pos, t)
            ok = r[0] == 'ok' and isinstance(r[1], bytes) and len(r[1]) == n and r[1][:pos] == data[:pos] and r[1][pos + 4:] == data[pos + 4:]
            ctx.ok('C15/crc32_fix_pos/shape', ok, r, 'same length, only bytes pos..pos+3 changed')
            if ok:
                ctx.eq('C15/crc32_fix_pos/target', zlib.crc32(r[1]), t)
    # targets chosen so that the four fixing bytes come out as 00000000, ffffffff, 00000001, 80000000 (value classes of the result)
    for pos in range(0, n - 3):
        for window in (b'\0\0\0\0', b'\xff\xff\xff\xff', b'\0\0\0\x01', b'\x80\0\0\0', b'\0\0\x01\0'):
            want = data[:pos] + window + data[pos + 4:]
            t = zlib.crc32(want)
            ctx.eq('C15/crc32_fix_pos/crafted-window', ctx.attempt(crc32_fix_pos, data, pos, t), ('ok', want))
            if pos == n - 4:
                ctx.eq('C15/crc32_fix/crafted-window', ctx.attempt(crc32_fix, data, t), ('ok', want))
    c = zlib.crc32(data)
    for pos in range(0, n):
        fw = zlib.crc32(data[:pos]) ^ 0xffffffff
        ctx.eq('C15/crc32-backward', ctx.attempt(crc32_back_pos, data, pos, c), ('ok', fw))


class CrcSys(HSystem):
    """the crc module as one object: its precomputed tables and the default arguments of its functions are shared by every
    caller.  Events: building forward / backward tables for other polynomials, generic CRCs with them, and the CRC-32 helpers."""
    POLYS = [(0x82F63B78, 32), (0xA001, 16), (0xEDB88320, 32), (0xC96C5795D7870F42, 64)]
    DATA = [b'123456789', bytes(range(40, 53))]
    LONG = expander(700, 17)

    def fresh(self):
        import crysp.crc as C
        return {'C': importlib.reload(C), 'T': {}, 'Tb': {}}

    def canon(self, o):
        C = o['C']
        mod = tuple((k, canon(v)) for k, v in sorted(vars(C).items()) if k.startswith(('TABLE', 'POLY')) or k.startswith('_'))
        fns = tuple((k, canon(v.__defaults__), canon(getattr(v, '__dict__', {}))) for k, v in sorted(vars(C).items()) if callable(v) and getattr(v, '__module__', '') == C.__name__)
        return (h8c(mod), fns, tuple(sorted(o['T'])), tuple(sorted(o['Tb'])))

    def events(self, o):
        ev = [('table', i) for i in range(len(self.POLYS))] + [('back-table', i) for i in range(len(self.POLYS))]
        ev += [('crc', i) for i in sorted(o['T'])] + [('crc-back', i) for i in sorted(o['Tb'])]
        ev += [('crc-long', i) for i in sorted(o['T'])] + [('drop-tables', 0)]
        ev += [('crc32', 0), ('crc32', 1), ('fix', 0), ('fix-pos', 0), ('fix-pos', 1), ('back-pos', 0), ('back-pos', 1)]
        return ev

    def apply(self, o, ev):
        from crysp.bits import Bits
        C = o['C']
        k, i = ev
        if k == 'table':
            o['T'][i] = C.crc_table(Bits(*self.POLYS[i]))
            return [int(x) for x in o['T'][i]]
        if k == 'back-table':
            o['Tb'][i] = C.crc_back_table(Bits(*self.POLYS[i]))
            t = o['Tb'][i]
            return sorted((a, int(b)) for a, b in (t.items() if hasattr(t, 'items') else enumerate(t)))
        if k == 'drop-tables':
            # the caller lets go of every table it holds: whatever is built next may live at the same addresses
            o['T'].clear()
            o['Tb'].clear()
            return None
        if k == 'crc-long':
            N = self.POLYS[i][1]
            return C.crc(self.LONG, o['T'][i], 0, (1 << N) - 1)
        if k == 'crc':
            N = self.POLYS[i][1]
            return C.crc(self.DATA[0], o['T'][i], (1 << N) - 1, (1 << N) - 1)
        if k == 'crc-back':
            P, N = self.POLYS[i]
            m = self.DATA[0]
            return C.crc_back_pos(m, 4, o['Tb'][i], (1 << N) - 1, bitwise_crc(P, N, m, (1 << N) - 1, (1 << N) - 1))
        m = self.DATA[i]
        if k == 'crc32':
            return C.crc32(m)
        if k == 'fix':
            return C.crc32_fix(m, 0xdeadbeef)
        if k == 'fix-pos':
            return C.crc32_fix_pos(m, 2 + 3 * i, 0x01020304)
        return C.crc32_back_pos(m, 3 + i, zlib.crc32(m))

    def judge(self, ctx, hist, ev, res, o):
        k, i = ev
        K = 'C15/module-histories/'
        if k == 'table':
            P, N = self.POLYS[i]
            ctx.eq(K + 'crc_table', res, ('ok', [bitwise_crc(P, N, bytes([b]), 0, 0) for b in range(256)]))
        elif k == 'back-table':
            ctx.ok(K + 'crc_back_table', res[0] == 'ok' and [a for a, _ in res[1]] == list(range(256)), res)
        elif k == 'drop-tables':
            pass
        elif k == 'crc-long':
            P, N = self.POLYS[i]
            ctx.eq(K + 'generic-crc/long-message', res, ('ok', bitwise_crc(P, N, self.LONG, 0, (1 << N) - 1)))
        elif k == 'crc':
            P, N = self.POLYS[i]
            ctx.eq(K + 'generic-crc', res, ('ok', bitwise_crc(P, N, self.DATA[0], (1 << N) - 1, (1 << N) - 1)))
        elif k == 'crc-back':
            P, N = self.POLYS[i]
            ctx.eq(K + 'crc-backward', res, ('ok', bitwise_crc(P, N, self.DATA[0][:4], (1 << N) - 1, 0)))
        elif k == 'crc32':
            ctx.eq(K + 'crc32', res, ('ok', zlib.crc32(self.DATA[i])))
        elif k == 'fix':
            m = self.DATA[i]
            ok = res[0] == 'ok' and isinstance(res[1], bytes) and len(res[1]) == len(m) and res[1][:-4] == m[:-4] and zlib.crc32(res[1]) == 0xdeadbeef
            ctx.ok(K + 'crc32_fix', ok, res, 'same data, last four bytes changed, CRC-32 = deadbeef')
        elif k == 'fix-pos':
            m, pos = self.DATA[i], 2 + 3 * i
            ok = res[0] == 'ok' and isinstance(res[1], bytes) and len(res[1]) == len(m) and res[1][:pos] == m[:pos] and res[1][pos + 4:] == m[pos + 4:] and zlib.crc32(res[1]) == 0x01020304
            ctx.ok(K + 'crc32_fix_pos', ok, res, 'same data, bytes pos..pos+3 changed, CRC-32 = 01020304')
        else:
            m = self.DATA[i]
            ctx.eq(K + 'crc32-backward', res, ('ok', zlib.crc32(m[:3 + i]) ^ 0xffffffff))


def h8c(x):
    from mc.engine import h8
    return h8(x).hex()


def crc_systems(tier):
    return {'crc-module': CrcSys()}


PROP_ = 'C15'


def fu_targets():
    import crysp.crc as C
    from crysp.bits import Bits
    m = expander(150, 3)
    t = {'crc32': (lambda: C.crc32(m), zlib.crc32(m))}
    want = m[:20] + b'\0\0\0\x01' + m[24:]
    t['crc32_fix_pos'] = (lambda: C.crc32_fix_pos(m, 20, zlib.crc32(want)), want)
    t['crc32_back_pos'] = (lambda: C.crc32_back_pos(m, 7, zlib.crc32(m)), zlib.crc32(m[:7]) ^ 0xffffffff)
    t['crc-16'] = (lambda: C.crc(m, C.crc_table(Bits(0xA001, 16)), 0xffff, 0), bitwise_crc(0xA001, 16, m, 0xffff, 0))
    t['crc-64'] = (lambda: C.crc(m, C.crc_table(Bits(0xC96C5795D7870F42, 64)), 0, (1 << 64) - 1), bitwise_crc(0xC96C5795D7870F42, 64, m, 0, (1 << 64) - 1))
    return t


def subchecks():
    return [firstuse_sub(PROP_, fu_targets, every=2),
        Sub('crc32', pts_crc32, run_crc32, engine='D', bound='every byte string of length 0..2 (65793) and 6 data patterns at every length 3..64 (thorough ..128) vs zlib.crc32'),
        Sub('width8', pts_w8, run_w8, engine='D', bound='every reflected polynomial of width 8 x every 1-byte input x init/final in {0,FF}^2 vs bit-by-bit division'),
        Sub('generic', pts_generic, run_generic, engine='P', exhaustive=False,
            bound='every width 8..64 x {top bit only, all ones, named standard, expander-derived (+3 in thorough)} x 2 patterns of length 0..9 x init/final in {0,all-ones}^2; backward computation at every position'),
        Sub('same-value-widths', pts_samevalue, run_samevalue, engine='H', chunk=1,
            bound='polynomial values A001, EDB88320, 8C, 1, C96C5795D7870F42 each used at 1-5 widths in sequence in one process (also in descending order): tables, forward and backward CRC with init in {0, all-ones, all-ones>>1}, final in {0, all-ones}'),
        hsub('module-histories', crc_systems, lambda tier: 3 if tier == 'quick' else 5, split=lambda tier: 4 if tier == 'quick' else 15,
             bound='one loaded crc module: crc_table / crc_back_table for CRC-32C, CRC-16/ARC, CRC-32 and CRC-64/XZ, generic forward and backward CRC (9 and 700 bytes) with the tables built so far, dropping every table the caller holds, crc32, crc32_fix, crc32_fix_pos, crc32_back_pos on two inputs; all histories to depth 3 (thorough 5); state = module tables + function defaults/attributes + which tables the caller holds; every answer vs zlib / bit-by-bit division'),
        Sub('forging', pts_forge, run_forge, engine='P', exhaustive=False,
            bound='data length 4..12 (thorough ..16) x 2 patterns x every position x targets {0, ~0, 32 single-bit words, crc32(data), 3 fixed words} and the targets that make the fixing window 00000000 / ffffffff / 00000001 / 80000000 / 00000100'),
    ]


ASSUMPTIONS = ['zlib.crc32 is the ISO-HDLC CRC-32', 'backward tables are only exercised for polynomials with the top bit set (a reflected polynomial of full degree), where one step is invertible']
