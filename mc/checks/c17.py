"""C17 - MD6 digests equal the specification for every size, mode, key and message."""
from mc.engine import Sub, InternalError
from mc.checks.firstuse import firstuse_sub
from mc.common import ramp, expander
from mc.refs import md6 as RM

SHAPE_ROUNDS = 12     # measured on the reference: every one of the 89 input words reaches the digest from 9 rounds on


def mk(d, key, L, rounds):
    from crysp.md import MD6
    o = MD6(d, Key=key, L=L)
    if rounds is not None:
        o.rounds = rounds
    return o


def keyof(kl):
    if isinstance(kl, tuple):          # (length, fill byte): constant keys such as all-zero keys
        return bytes([kl[1]]) * kl[0]
    return ramp(kl, 7, 0x41)


def judge(ctx, cls, d, L, kl, rounds, M, bitlen=None):
    key = keyof(kl)
    r = ctx.attempt(lambda: mk(d, key, L, rounds)(M) if bitlen is None else mk(d, key, L, rounds)(M, bitlen=bitlen))
    exp = RM.md6(d, M, bitlen, key=key, L=L, r=rounds)
    ctx.eq('C17/' + cls, r, ('ok', exp))
    if len(M) <= 2049:
        # second call on an object that already hashed another (two-level, non byte-aligned) message
        def second():
            o = mk(d, key, L, rounds)
            o(b'\xa5' * 600, bitlen=4797)
            return o(M) if bitlen is None else o(M, bitlen=bitlen)
        ctx.eq('C17/' + cls + '/reused-object', ctx.attempt(second), ('ok', exp))
    if r[0] == 'ok':
        ctx.eq('C17/digest-size', len(r[1]), (d + 7) // 8)


def pts_d(tier):
    return [(d,) for d in range(1, 513, 1 if tier == 'thorough' else 5)] + [(d,) for d in (7, 8, 9, 160, 224, 255, 256, 257, 384, 511, 512)]


def run_d(ctx, pt):
    d = pt[0]
    for L in (64, 0):
        judge(ctx, 'digest-size-sweep', d, L, 0, SHAPE_ROUNDS, b'abc')


LENS = [0, 1, 2, 3, 383, 384, 385, 511, 512, 513, 767, 768, 769, 1023, 1024, 1025, 1535, 1536, 1537, 2047, 2048, 2049]


def pts_shapes(tier):
    pts = []
    ds = (1, 7, 8, 160, 224, 256, 384, 511, 512) if tier == 'thorough' else (7, 160, 256, 512)
    for L in (0, 1, 2, 3, 64):
        for kl in (0, 1, 8, 63, 64):
            for n in LENS + [5 * 512, 16 * 512, 17 * 512 - 1, 64 * 512 + 1, 65 * 512]:
                if tier == 'quick' and (n > 17 * 512 or (kl in (1, 63) and n not in (0, 3, 513, 1537)) or (n > 2049 and kl not in (0, 8))):
                    continue
                for d in (ds if n in (3, 513) else (256,)):
                    pts.append((d, L, kl, n))
    return pts


def leafclass(n):
    k = max(1, -(-n // 512))
    return '1-leaf' if k == 1 else ('2-4-leaves' if k <= 4 else ('5-16-leaves' if k <= 16 else ('17-64-leaves' if k <= 64 else '65+-leaves')))


def modeclass(L, n):
    k = max(1, -(-n // 512))
    h = 1
    while k > 1:
        k = -(-k // 4)
        h += 1
    if L == 0:
        return 'sequential'
    return 'tree' if L >= h else 'hybrid'


def zlead(M):
    """the same bytes, but every 384- and 512-byte block starts with a zero 64-bit word and ends with one (value classes
    of the compression input words, here: words that are zero)"""
    b = bytearray(M)
    for blk in (384, 512):
        for o in range(0, len(b), blk):
            b[o:o + 8] = bytes(min(8, len(b) - o))
            e = min(o + blk, len(b))
            if e - 8 >= o:
                b[e - 8:e] = bytes(8)
    return bytes(b)


def run_shapes(ctx, pt):
    d, L, kl, n = pt
    M = expander(n, 1 + (n % 5))
    ctx.shape((L, kl > 0, leafclass(n), n % 512 == 0, n % 384 == 0))
    judge(ctx, '%s/%s' % (modeclass(L, n), 'keyed' if kl else 'unkeyed'), d, L, kl, SHAPE_ROUNDS, M)
    if n >= 16 and kl in (0, 8):
        judge(ctx, '%s/%s/blocks-with-zero-words' % (modeclass(L, n), 'keyed' if kl else 'unkeyed'), d, L, kl, SHAPE_ROUNDS, zlead(M))


def pts_huge(tier):
    return [(64, 4097 * 512 + 1), (1, 4097 * 512)] if tier == 'thorough' else []


def run_huge(ctx, pt):
    """more than 4096 leaf blocks (over 2 MiB) in one level (sampled, thorough only)"""
    L, n = pt
    M = expander(4096, 5) * (n // 4096 + 1)
    judge(ctx, 'more-than-4096-leaves', 256, L, 0, SHAPE_ROUNDS, M[:n])


def pts_bits(tier):
    pts = []
    for L in (64, 0, 1):
        for n in (1, 512, 513, 2049, 5 * 512 + 1) + ((17 * 512,) if tier == 'thorough' else ()):
            for k in range(0, 8):
                pts.append((L, n, k))
    return pts


def run_bits(ctx, pt):
    L, n, k = pt
    M = expander(n, 3)
    bl = 8 * n - k
    cls = 'bit-length/%s/%s' % (modeclass(L, n), 'one-level' if n <= 512 or L == 0 else 'several-levels')
    judge(ctx, cls, 256, L, 0, SHAPE_ROUNDS, M, bitlen=bl)
    if k in (0, 3):
        key = keyof(0)
        for extra in (7, 520, 3000):
            r = ctx.attempt(lambda: mk(256, key, L, SHAPE_ROUNDS)(M + b'\xaa' * extra, bitlen=bl))
            ctx.eq('C17/' + cls + '/longer-container', r, ('ok', RM.md6(256, M, bl, key=key, L=L, r=SHAPE_ROUNDS)))


def pts_rounds(tier):
    pts = []
    # the default round count 40+d/4 (max(80,.) only with a key) over the digest-size range, on short messages
    for d in (1, 8, 64, 128, 159, 160, 161, 224, 320, 384, 512) if tier == 'thorough' else (8, 64, 128, 160, 384):
        for kl in (0, 3):
            for L in (64, 0):
                pts.append((d, L, kl, 3, None))
        # keys made of one repeated byte (a key that is present but all zero still counts as a key)
        for kl in ((1, 0), (8, 0), (64, 0), (3, 255)):
            for L in (64, 0, 1):
                pts.append((d, L, kl, 3, None))
                pts.append((d, L, kl, 600, 12))
    # explicit round counts over the whole range of the 12-bit field
    for rounds in (1, 2, 3, 4, 6, 7, 8, 10, 11, 13, 16, 17, 32, 80, 104, 167, 168, 169, 170, 200, 255, 256, 257) + ((500, 1023, 1024, 4095) if tier == 'thorough' else (511,)):
        for L in (64, 0):
            pts.append((256, L, 0, 3, rounds))
            if rounds in (169, 257):
                pts.append((256, L, 8, 520, rounds))
    for d in (160, 256, 512) if tier == 'thorough' else (256,):
        for L in (64, 0, 1):
            for kl in (0, 8, 64):
                for n in (0, 3, 513) + ((2049,) if tier == 'thorough' else ()):
                    for rounds in (None, 1, 5) + ((9, 40, 168) if tier == 'thorough' else ()):
                        pts.append((d, L, kl, n, rounds))
    return pts


def run_rounds(ctx, pt):
    d, L, kl, n, rounds = pt
    M = expander(n, 2)
    judge(ctx, 'rounds/%s/%s' % ('default' if rounds is None else 'explicit', ('keyed-constant' if isinstance(kl, tuple) else 'keyed') if kl else 'unkeyed'), d, L, kl, rounds, M)


def pts_levels(tier):
    pts = [(d, kl, L, j) for d in (256, 224) for kl in (0, 8) for L in (64, 2) for j in (1, 2)]
    return pts if tier == 'thorough' else [p for p in pts if p[0] == 256 or (p[1] == 8 and p[2] == 64)]


def run_levels(ctx, pt):
    """level confusion: a level-2 node of the 4-ary tree is as large as a leaf (4 x 16 words) and node j has the index of
    leaf j.  The message is crafted with the reference compression so that leaf j IS the payload of level-2 node j (the
    chaining values of leaves 4j..4j+3); only the level in the node id tells the two compressions apart.  Also across
    two calls on one object: a 4-leaf message, then a message that starts with its four chaining values."""
    import struct
    d, kl, L, j = pt
    key = keyof(kl)
    r = SHAPE_ROUNDS
    K = list(struct.unpack('>8Q', key.ljust(64, b'\0')))
    V = (r << 48) | (L << 40) | (0 << 36) | (0 << 20) | (len(key) << 12) | d

    def cv(i, block):
        N = RM.Q + K + [(1 << 56) | i, V] + list(struct.unpack('>64Q', block))
        return b''.join(struct.pack('>Q', c) for c in RM.compress(N, r))
    nleaves = 4 * j + 4 + 1
    leaves = [expander(512, 50 + i) for i in range(nleaves)]
    leaves[j] = b''.join(cv(i, leaves[i]) for i in range(4 * j, 4 * j + 4))
    M = b''.join(leaves)[:-7]
    ctx.eq('C17/leaf-equal-to-a-node-of-the-next-level', ctx.attempt(lambda: mk(d, key, L, r)(M)), ('ok', RM.md6(d, M, key=key, L=L, r=r)))
    o = mk(d, key, L, r)
    P = [expander(512, 70 + i) for i in range(4)] + [b'tail']
    ctx.eq('C17/message', ctx.attempt(o, b''.join(P)), ('ok', RM.md6(d, b''.join(P), key=key, L=L, r=r)))
    M2 = b''.join(cv(i, P[i]) for i in range(4)) + expander(700, 9)
    ctx.eq('C17/message-starting-with-the-chaining-values-of-the-previous-message', ctx.attempt(o, M2), ('ok', RM.md6(d, M2, key=key, L=L, r=r)))


def pts_rchange(tier):
    rs = (104, 103, 12, 5, 80, 168) if tier == 'thorough' else (104, 103, 5)
    return [(d, L, kl, r1, r2) for d in (256, 224) for L in (64, 0, 1) for kl in (0, 3) for r1 in rs for r2 in rs if r1 != r2 and (tier == 'thorough' or (d == 256 or L == 64))]


def run_rchange(ctx, pt):
    """the round count of one object is changed between two calls (it is an attribute; None = back to the default)"""
    d, L, kl, r1, r2 = pt
    key = keyof(kl)
    o = mk(d, key, L, r1)
    M = expander(600, 3)
    ctx.eq('C17/rounds-set-explicitly', ctx.attempt(o, M), ('ok', RM.md6(d, M, key=key, L=L, r=r1)))
    o.rounds = r2
    ctx.eq('C17/rounds-changed-between-calls', ctx.attempt(o, M), ('ok', RM.md6(d, M, key=key, L=L, r=r2)))
    ctx.eq('C17/rounds-changed-between-calls', ctx.attempt(o, b'abc'), ('ok', RM.md6(d, b'abc', key=key, L=L, r=r2)))
    # a fresh object with its default round count, then lowered / raised
    o = mk(d, key, L, None)
    ctx.eq('C17/default-rounds', ctx.attempt(o, b'abc'), ('ok', RM.md6(d, b'abc', key=key, L=L)))
    o.rounds = r2
    ctx.eq('C17/rounds-changed-between-calls', ctx.attempt(o, b'abc'), ('ok', RM.md6(d, b'abc', key=key, L=L, r=r2)))


def selftest():
    try:
        return {'md6_reference_spec_examples_and_sensitivity': RM.selftest()}
    except AssertionError as e:
        raise InternalError('reference self-test failed: %r' % (e,))


PROP_ = 'C17'


def fu_targets():
    m = expander(700, 3)
    t = {}
    for (d, L, kl, bl) in ((256, 64, 0, None), (224, 0, 8, None), (512, 1, 0, 5597), (160, 64, 64, None)):
        key = keyof(kl)
        t['md6 d=%d L=%d keylen=%d bitlen=%s' % (d, L, kl, bl)] = ((lambda d, L, key, bl: lambda: mk(d, key, L, SHAPE_ROUNDS)(m) if bl is None else mk(d, key, L, SHAPE_ROUNDS)(m, bitlen=bl))(d, L, key, bl),
                                                               RM.md6(d, m, bl, key=key, L=L, r=SHAPE_ROUNDS))
    t['md6 default-rounds'] = (lambda: mk(256, b'', 64, None)(b'abc'), RM.md6(256, b'abc'))
    return t


def subchecks():
    return [firstuse_sub(PROP_, fu_targets, every=2),
        Sub('digest-sizes', pts_d, run_d, engine='P', bound='every d in 1..512 (quick: every 5th + boundary sizes) on a 3-byte message, tree and sequential mode, 12 rounds'),
        Sub('shapes', pts_shapes, run_shapes, engine='P',
            bound='L in {0,1,2,3,64} x key length {0,1,8,63,64} x message byte length in {0..3, 383..385, 511..513, 767..769, 1023..1025, 1535..1537, 2047..2049, 5, 16, 17-, 64+, 65 leaf blocks} (quick: subset above 17 leaves / for odd key lengths) x d in 9 (4) sizes at lengths 3 and 513, 12 rounds'),
        Sub('huge', pts_huge, run_huge, engine='P', exhaustive=False, chunk=1, bound='thorough only: 4097 leaf blocks (+1 byte) in tree and hybrid mode'),
        Sub('bit-lengths', pts_bits, run_bits, engine='P', bound='every L\' mod 8 at 1, 512, 513, 2049, 2561 (thorough 8704) bytes in tree, sequential and hybrid mode; containers 7, 520 and 3000 bytes longer'),
        Sub('tree-level-confusion', pts_levels, run_levels, engine='P',
            bound='d in {256,224} x keyed/unkeyed x L in {64,2} x node j in {1,2}: messages of 4j+5 leaves in which leaf j equals the four chaining values of leaves 4j..4j+3 (the payload of level-2 node j, same index), and a message starting with the chaining values of the previous message of the same object'),
        Sub('rounds-changed', pts_rchange, run_rchange, engine='H',
            bound='one object, rounds attribute changed between two calls: every ordered pair over {104,103,5} (thorough +{12,80,168}) x d in {256,224} x L in {64,0,1} x keyed/unkeyed; also from the default round count'),
        Sub('rounds', pts_rounds, run_rounds, engine='P', bound='default round count 40+d/4 (max(80,.) with a key) for d in {8,64,128,160,384} (thorough 11 sizes) keyed, unkeyed and with all-zero / all-ff keys; explicit rounds 1..17 (subset), 32, 80, 104, 167..170, 200, 255..257, 511 (thorough 500, 1023, 1024, 4095); rounds 1, 5 (thorough 9, 40, 168) x L in {64,0,1} x key length {0,8,64} x 3-4 lengths'),
    ]


ASSUMPTIONS = ['mc/refs/md6.py bound to the three specification examples and three published default-round digests each run; shapes are explored at 12 rounds (sensitivity of all 89 input words to the digest is self-tested at 12 rounds)']
