"""C17 - MD6 digests equal the specification for every size, mode, key and message."""
from mc.engine import Sub, InternalError
from mc.common import ramp, expander
from mc.refs import md6 as RM

SHAPE_ROUNDS = 12     # measured on the reference: every one of the 89 input words reaches the digest from 9 rounds on


def mk(d, key, L, rounds):
    from crysp.md import MD6
    o = MD6(d, Key=key, L=L)
    if rounds is not None:
        o.rounds = rounds
    return o


def keyof(kl):
    if isinstance(kl, tuple):          # (length, fill byte): constant keys such as all-zero keys
        return bytes([kl[1]]) * kl[0]
    return ramp(kl, 7, 0x41)


def judge(ctx, cls, d, L, kl, rounds, M, bitlen=None):
    key = keyof(kl)
    r = ctx.attempt(lambda: mk(d, key, L, rounds)(M) if bitlen is None else mk(d, key, L, rounds)(M, bitlen=bitlen))
    exp = RM.md6(d, M, bitlen, key=key, L=L, r=rounds)
    ctx.eq('C17/' + cls, r, ('ok', exp))
    if len(M) <= 2049:
        # second call on an object that already hashed another (two-level, non byte-aligned) message
        def second():
            o = mk(d, key, L, rounds)
            o(b'\xa5' * 600, bitlen=4797)
            return o(M) if bitlen is None else o(M, bitlen=bitlen)
        ctx.eq('C17/' + cls + '/reused-object', ctx.attempt(second), ('ok', exp))
    if r[0] == 'ok':
        ctx.eq('C17/digest-size', len(r[1]), (d + 7) // 8)


def pts_d(tier):
    return [(d,) for d in range(1, 513, 1 if tier == 'thorough' else 5)] + [(d,) for d in (7, 8, 9, 160, 224, 255, 256, 257, 384, 511, 512)]


def run_d(ctx, pt):
    d = pt[0]
    for L in (64, 0):
        judge(ctx, 'digest-size-sweep', d, L, 0, SHAPE_ROUNDS, b'abc')


LENS = [0, 1, 2, 3, 383, 384, 385, 511, 512, 513, 767, 768, 769, 1023, 1024, 1025, 1535, 1536, 1537, 2047, 2048, 2049]


def pts_shapes(tier):
    pts = []
    ds = (1, 7, 8, 160, 224, 256, 384, 511, 512) if tier == 'thorough' else (7, 160, 256, 512)
    for L in (0, 1, 2, 3, 64):
        for kl in (0, 1, 8, 63, 64):
            for n in LENS + [5 * 512, 16 * 512, 17 * 512 - 1, 64 * 512 + 1, 65 * 512]:
                if tier == 'quick' and (n > 17 * 512 or (kl in (1, 63) and n not in (0, 3, 513, 1537)) or (n > 2049 and kl not in (0, 8))):
                    continue
                for d in (ds if n in (3, 513) else (256,)):
                    pts.append((d, L, kl, n))
    return pts


def leafclass(n):
    k = max(1, -(-n // 512))
    return '1-leaf' if k == 1 else ('2-4-leaves' if k <= 4 else ('5-16-leaves' if k <= 16 else ('17-64-leaves' if k <= 64 else '65+-leaves')))


def modeclass(L, n):
    k = max(1, -(-n // 512))
    h = 1
    while k > 1:
        k = -(-k // 4)
        h += 1
    if L == 0:
        return 'sequential'
    return 'tree' if L >= h else 'hybrid'


def zlead(M):
    """the same bytes, but every 384- and 512-byte block starts with a zero 64-bit word and ends with one (value classes
    of the compression input words, here: words that are zero)"""
    b = bytearray(M)
    for blk in (384, 512):
        for o in range(0, len(b), blk):
            b[o:o + 8] = bytes(min(8, len(b) - o))
            e = min(o + blk, len(b))
            if e - 8 >= o:
                b[e - 8:e] = bytes(8)
    return bytes(b)


def run_shapes(ctx, pt):
    d, L, kl, n = pt
    M = expander(n, 1 + (n % 5))
    ctx.shape((L, kl > 0, leafclass(n), n % 512 == 0, n % 384 == 0))
    judge(ctx, '%s/%s' % (modeclass(L, n), 'keyed' if kl else 'unkeyed'), d, L, kl, SHAPE_ROUNDS, M)
    if n >= 16 and kl in (0, 8):
        judge(ctx, '%s/%s/blocks-with-zero-words' % (modeclass(L, n), 'keyed' if kl else 'unkeyed'), d, L, kl, SHAPE_ROUNDS, zlead(M))


def pts_huge(tier):
    return [(64, 4097 * 512 + 1), (1, 4097 * 512)] if tier == 'thorough' else []


def run_huge(ctx, pt):
    """more than 4096 leaf blocks (over 2 MiB) in one level (sampled, thorough only)"""
    L, n = pt
    M = expander(4096, 5) * (n // 4096 + 1)
    judge(ctx, 'more-than-4096-leaves', 256, L, 0, SHAPE_ROUNDS, M[:n])


def pts_bits(tier):
    pts = []
    for L in (64, 0, 1):
        for n in (1, 512, 513, 2049, 5 * 512 + 1) + ((17 * 512,) if tier == 'thorough' else ()):
            for k in range(0, 8):
                pts.append((L, n, k))
    return pts


def run_bits(ctx, pt):
    L, n, k = pt
    M = expander(n, 3)
    bl = 8 * n - k
    cls = 'bit-length/%s/%s' % (modeclass(L, n), 'one-level' if n <= 512 or L == 0 else 'several-levels')
    judge(ctx, cls, 256, L, 0, SHAPE_ROUNDS, M, bitlen=bl)
    if k in (0, 3):
        key = keyof(0)
        for extra in (7, 520, 3000):
            r = ctx.attempt(lambda: mk(256, key, L, SHAPE_ROUNDS)(M + b'\xaa' * extra, bitlen=bl))
            ctx.eq('C17/' + cls + '/longer-container', r, ('ok', RM.md6(256, M, bl, key=key, L=L, r=SHAPE_ROUNDS)))


def pts_rounds(tier):
    pts = []
    # the default round count 40+d/4 (max(80,.) only with a key) over the digest-size range, on short messages
    for d in (1, 8, 64, 128, 159, 160, 161, 224, 320, 384, 512) if tier == 'thorough' else (8, 64, 128, 160, 384):
        for kl in (0, 3):
            for L in (64, 0):
                pts.append((d, L, kl, 3, None))
        # keys made of one repeated byte (a key that is present but all zero still counts as a key)
        for kl in ((1, 0), (8, 0), (64, 0), (3, 255)):
            for L in (64, 0, 1):
                pts.append((d, L, kl, 3, None))
                pts.append((d, L, kl, 600, 12))
    # explicit round counts over the whole range of the 12-bit field
    for rounds in (1, 2, 3, 4, 6, 7, 8, 10, 11, 13, 16, 17, 32, 80, 104, 167, 168, 169, 170, 200, 255, 256, 257) + ((500, 1023, 1024, 4095) if tier == 'thorough' else (511,)):
        for L in (64, 0):
            pts.append((256, L, 0, 3, rounds))
            if rounds in (169, 257):
                pts.append((256, L, 8, 520, rounds))
    for d in (160, 256, 512) if tier == 'thorough' else (256,):
        for L in (64, 0, 1):
            for kl in (0, 8, 64):
                for n in (0, 3, 513) + ((2049,) if tier == 'thorough' else ()):
                    for rounds in (None, 1, 5) + ((9, 40, 168) if tier == 'thorough' else ()):
                        pts.append((d, L, kl, n, rounds))
    return pts


def run_rounds(ctx, pt):
    d, L, kl, n, rounds = pt
    M = expander(n, 2)
    judge(ctx, 'rounds/%s/%s' % ('default' if rounds is None else 'explicit', ('keyed-constant' if isinstance(kl, tuple) else 'keyed') if kl else 'unkeyed'), d, L, kl, rounds, M)


def selftest():
    try:
        return {'md6_reference_spec_examples_and_sensitivity': RM.selftest()}
    except AssertionError as e:
        raise InternalError('reference self-test failed: %r' % (e,))


def subchecks():
    return [
        Sub('digest-sizes', pts_d, run_d, engine='P', bound='every d in 1..512 (quick: every 5th + boundary sizes) on a 3-byte message, tree and sequential mode, 12 rounds'),
        Sub('shapes', pts_shapes, run_shapes, engine='P',
            bound='L in {0,1,2,3,64} x key length {0,1,8,63,64} x message byte length in {0..3, 383..385, 511..513, 767..769, 1023..1025, 1535..1537, 2047..2049, 5, 16, 17-, 64+, 65 leaf blocks} (quick: subset above 17 leaves / for odd key lengths) x d in 9 (4) sizes at lengths 3 and 513, 12 rounds'),
        Sub('huge', pts_huge, run_huge, engine='P', exhaustive=False, chunk=1, bound='thorough only: 4097 leaf blocks (+1 byte) in tree and hybrid mode'),
        Sub('bit-lengths', pts_bits, run_bits, engine='P', bound='every L\' mod 8 at 1, 512, 513, 2049, 2561 (thorough 8704) bytes in tree, sequential and hybrid mode; containers 7, 520 and 3000 bytes longer'),
        Sub('rounds', pts_rounds, run_rounds, engine='P', bound='default round count 40+d/4 (max(80,.) with a key) for d in {8,64,128,160,384} (thorough 11 sizes) keyed, unkeyed and with all-zero / all-ff keys; explicit rounds 1..17 (subset), 32, 80, 104, 167..170, 200, 255..257, 511 (thorough 500, 1023, 1024, 4095); rounds 1, 5 (thorough 9, 40, 168) x L in {64,0,1} x key length {0,8,64} x 3-4 lengths'),
    ]


ASSUMPTIONS = ['mc/refs/md6.py bound to the three specification examples and three published default-round digests each run; shapes are explored at 12 rounds (sensitivity of all 89 input words to the digest is self-tested at 12 rounds)']
