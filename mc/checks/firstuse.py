"""shared subcheck: one call of the property under test, made after some OTHER configuration of the library was used first
in a fresh process (lazily filled tables, class-level caches and import-order effects show up here and nowhere else).
The list of first uses is the configuration registry of C10 (77 entries); the expected answers come from the references
of the property that uses this helper."""
from mc.engine import Sub


def firstuse_sub(prop, targets, every=1):
    """targets() -> dict name -> (thunk, expected value).  One point per (first use, target), each in its own process."""
    def points(tier):
        from mc.checks import c10
        names = sorted(c10.configs())
        if tier != 'thorough' and every > 1:
            names = names[::every]
        return [(a, t) for a in names for t in sorted(targets())]

    def run(ctx, pt):
        from mc.checks import c10
        a, t = pt
        ctx.attempt(c10.configs()[a])
        f, exp = targets()[t]
        r = ctx.attempt(f)
        if r[0] == 'ok' and isinstance(r[1], (bytes, bytearray)):
            r = ('ok', bytes(r[1]))
        ctx.eq('%s/%s/after-another-configuration-was-used-first-in-the-process' % (prop, t.split(' ')[0]), r, ('ok', exp))
    return Sub('first-use-order', points, run, engine='H', chunk=1,
               bound='every pair (one of the 77 configurations of the library used first in a fresh process%s, judged call of this property) vs the reference' % (' - quick: every %d%s' % (every, 'nd' if every == 2 else 'rd' if every == 3 else 'th') if every > 1 else ''))
