"""C20 - permutation and subset-sum helpers enumerate exactly and answer correctly."""
import itertools, collections, importlib
from mc.engine import Sub, HSystem, hsub, canon, pristine


def pts_perm(tier):
    pts = []
    top = 6 if tier == 'thorough' else 5
    for n in range(0, top + 1):
        for l in itertools.product((0, 1, 2), repeat=n):
            pts.append(tuple(l))
    for n in range(0, (8 if tier == 'thorough' else 6) + 1):
        pts.append(tuple(range(n)))
        pts.append(tuple(reversed(range(n))))
    return sorted(set(pts), key=lambda t: (len(t), t))


def run_perm(ctx, pt):
    from crysp.utils.perms import permutk
    l0 = list(pt)
    for k in range(0, len(l0) + 1):
        l = list(l0)
        r = ctx.attempt(lambda: [tuple(y) for y in permutk(l, k)])
        exp = collections.Counter(tuple(l0[:k]) + p for p in itertools.permutations(l0[k:]))
        if r[0] == 'ok':
            got = collections.Counter(r[1])
            ctx.eq('C20/permutk/arrangements', sorted(got.items()), sorted(exp.items()))
            ctx.eq('C20/permutk/count', len(r[1]), len(list(itertools.permutations(l0[k:]))))
        else:
            ctx.eq('C20/permutk/arrangements', r, 'ok')
        ctx.eq('C20/permutk/list-restored', l, l0)


def pts_next(tier):
    pts = []
    for n in range(1, (6 if tier == 'thorough' else 5) + 1):
        pts.append(('perm', n))
    top = 6 if tier == 'thorough' else 5
    for n in range(1, top + 1):
        for ms in itertools.combinations_with_replacement((0, 1, 2), n):
            pts.append(('multi',) + tuple(ms))
    return pts


def run_next(ctx, pt):
    from crysp.utils.perms import nextperm
    if pt[0] == 'perm':
        seq = list(itertools.permutations(range(pt[1])))
        key = 'C20/nextperm/distinct-elements'
    else:
        seq = sorted(set(itertools.permutations(pt[1:])))
        key = 'C20/nextperm/repeated-elements' if len(set(pt[1:])) < len(pt[1:]) else 'C20/nextperm/distinct-elements'
    for i, p in enumerate(seq):
        l = list(p)
        r = ctx.attempt(nextperm, l)
        exp = list(seq[(i + 1) % len(seq)])
        ctx.eq(key, (r[0], list(r[1]) if r[0] == 'ok' and r[1] is not None else r[1], l), ('ok', exp, exp))


def pts_comb(tier):
    return [(n, p) for n in range(1, (7 if tier == 'thorough' else 6) + 1) for p in range(1, n + 1)]


def run_comb(ctx, pt):
    from crysp.utils.perms import combink
    n, p = pt
    for l in (list(range(n)), [chr(97 + i) for i in range(n)], [i % 2 for i in range(n)]):
        l0 = list(l)
        r = ctx.attempt(lambda: [tuple(c) for c in combink(l, p, 0)])
        ctx.eq('C20/combink', r, ('ok', list(itertools.combinations(l0, p))))
        ctx.eq('C20/combink/list-unchanged', l, l0)
    # two enumerations requested before either is consumed (itertools.chain), over lists of different lengths
    for (n2, p2) in ((max(1, n - 2), 1), (n + 1, min(p, n + 1)), (1, 1)):
        l1, l2 = list(range(n)), [chr(97 + i) for i in range(n2)]
        r = ctx.attempt(lambda: [tuple(c) for c in itertools.chain(combink(l1, p, 0), combink(l2, p2, 0))])
        ctx.eq('C20/combink/two-enumerations-requested-before-consumption', r,
               ('ok', list(itertools.combinations(l1, p)) + list(itertools.combinations(l2, p2))))
    # a second complete enumeration gives the same answer (internal static state is cleaned up)
    l = list(range(n))
    a = ctx.attempt(lambda: [tuple(c) for c in combink(l, p, 0)])
    b = ctx.attempt(lambda: [tuple(c) for c in combink(l, p, 0)])
    ctx.eq('C20/combink/repeated-call', b, a)


# ---- subset sum ----------------------------------------------------------------

WEIGHTS = (1, 2, 3, 5)


def items_of(ws):
    return [('i%d' % j, w) for j, w in enumerate(ws)]


def brute(items, s):
    """minimum cardinality of a sub-collection with sum s, or None"""
    best = None
    for r in range(len(items) + 1):
        for c in itertools.combinations(items, r):
            if sum(w for _, w in c) == s:
                return r
    return best


def judge_subset(ctx, key, items, s, res, minimal):
    """res = ('ok', value) | ('exc', name).  Success is a list; failure is None or False."""
    need = brute(items, s)
    if res[0] != 'ok':
        ctx.fail(key + '/exception', 'an answer', res)
        ctx.cmps += 1
        return
    v = res[1]
    if need is None:
        ctx.ok(key + '/failure-not-reported', v is None or v is False, v)
        return
    if not isinstance(v, (list, tuple)):
        ctx.ok(key + '/no-sub-collection-returned', False, v, 'a list of items summing to %d' % s)
        return
    cnt = collections.Counter(v)
    ctx.ok(key + '/not-a-sub-collection', all(it in items for it in v) and all(c <= 1 for c in cnt.values()),
           (sorted(v), s), 'items of the input, each used at most once')
    ctx.ok(key + '/wrong-sum', sum(w for _, w in v) == s, (sorted(v), s))
    if minimal:
        ctx.ok(key + '/not-minimal', len(v) == need, (sorted(v), need))


BIG = [(1 << 53) + 3, (1 << 53) + 1, (1 << 60) + 7, (1 << 64) - 1, 3]


def pts_bigweights(tier):
    return [tuple(c) for r in (1, 2, 3) for c in itertools.combinations(BIG, r)]


def run_bigweights(ctx, pt):
    """weights beyond 2^53 (not representable as floats)"""
    items = items_of(pt)
    targets = sorted({sum(w for _, w in c) for r in range(1, len(items) + 1) for c in itertools.combinations(items, r)} | {pt[0] + 1, pt[0] - 1})
    for s_ in targets:
        K = fresh_knapsack()
        judge_subset(ctx, 'C20/exactsum/big-weights', items, s_, ctx.attempt(K.exactsum, list(items), s_), False)


SCALE = 22000          # 3 * SCALE > 2^16: every target of three or more units lies beyond 16 bits


def pts_scaled(tier):
    pts = []
    for ms in itertools.combinations_with_replacement((1, 2, 3, 6), 3):
        for order in ((0, 1) if tier == 'thorough' else (0,)):
            for extra in ((), (7,)):
                pts.append((tuple(ms) if order == 0 else tuple(reversed(ms)), extra, tier))
    return pts


def run_scaled(ctx, pt):
    """the small instances again with every weight multiplied by SCALE (optionally with one small unscaled item):
    what is reachable, and with how few items, does not depend on the unit"""
    ws, extra, tier = pt
    items = items_of([w * SCALE for w in ws] + list(extra))
    tot = sum(ws)
    ts = range(1, tot + 2) if tier == 'thorough' else sorted({tot, tot // 2, max(ws), tot - min(ws), tot + 1})
    for t in ts:
        for s_ in [t * SCALE] + [t * SCALE + e for e in extra]:
            K = fresh_knapsack()
            l = list(items)
            judge_subset(ctx, 'C20/dynprog/large-weights', items, s_, ctx.attempt(K.dynprog, l, s_), True)
            ctx.eq('C20/dynprog/input-mutated', l, items)
            judge_subset(ctx, 'C20/exactsum/large-weights', items, s_, ctx.attempt(K.exactsum, list(items), s_), False)


def pts_subset(tier):
    pts = []
    for n in range(0, (6 if tier == 'thorough' else 5) + 1):
        for ws in itertools.product(WEIGHTS, repeat=n):
            pts.append(tuple(ws))
    return pts


def pts_zero(tier):
    pts = []
    for n in range(1, (5 if tier == 'thorough' else 4) + 1):
        for ws in itertools.product((0, 1, 2, 3), repeat=n):
            if 0 in ws:
                pts.append(tuple(ws))
    return pts


def run_zero(ctx, pt):
    """item lists that contain items of weight zero (they change no sum: never needed, never harmful)"""
    ws = list(pt)
    items = items_of(ws)
    for s_ in range(0, sum(ws) + 2):
        K = fresh_knapsack()
        judge_subset(ctx, 'C20/dynprog/zero-weight-items', items, s_, ctx.attempt(K.dynprog, list(items), s_), True)
        if s_ > 0:
            judge_subset(ctx, 'C20/exactsum/zero-weight-items', items, s_, ctx.attempt(K.exactsum, list(items), s_), False)


def judge_acc(ctx, key, items, s_, res, acc):
    """exactsum called with the caller's own result list: truthy exactly when solvable, and the list then holds a solution"""
    need = brute(items, s_)
    if res[0] != 'ok':
        ctx.fail(key + '/exception', 'an answer', res)
        ctx.cmps += 1
        return
    ctx.ok(key + '/wrong-verdict', bool(res[1]) == (need is not None), (res[1], need))
    if need is not None and res[1]:
        cnt = collections.Counter(acc)
        ctx.ok(key + '/not-a-sub-collection', all(it in items for it in acc) and all(c <= 1 for c in cnt.values()), (sorted(acc), s_))
        ctx.ok(key + '/wrong-sum', sum(w for _, w in acc) == s_, (sorted(acc), s_))


def fresh_knapsack():
    import crysp.utils.knapsack as K
    return importlib.reload(K)


def run_subset(ctx, pt):
    ws = list(pt)
    items = items_of(ws)
    for s in range(0, sum(ws) + 2):
        K = fresh_knapsack()       # pristine module state: history independence is judged in the H subcheck
        l = list(items)
        r = ctx.attempt(K.dynprog, l, s)
        judge_subset(ctx, 'C20/dynprog', items, s, r, True)
        ctx.eq('C20/dynprog/input-mutated', l, items)
        if s > 0:
            l = list(items)
            r = ctx.attempt(K.exactsum, l, s)
            judge_subset(ctx, 'C20/exactsum', items, s, r, False)
            ctx.eq('C20/exactsum/input-mutated', l, items)
            acc = []
            judge_acc(ctx, 'C20/exactsum/own-result-list', items, s, ctx.attempt(K.exactsum, list(items), s, 0, acc), acc)


class SubsetSys(HSystem):
    """module-level state of crysp.utils.knapsack (default arguments) under repeated calls"""
    CALLS = [('exactsum', (1, 2, 3), 3), ('exactsum', (1, 2, 3), 4), ('exactsum', (2, 2, 5), 7), ('exactsum', (2, 2), 3),
             ('exactsum', (5, 3, 1), 1), ('dynprog', (1, 2, 3), 3), ('dynprog', (2, 2, 5), 4), ('dynprog', (2, 2), 3)]

    SHARED = [(1, 2, 3), (1, 2, 40), (7, 2, 3)]       # contents given to one caller-owned list object, in place

    def fresh(self):
        return {'K': fresh_knapsack(), 'L': items_of(self.SHARED[0]), 'ver': 0, 'last': None}

    def canon(self, o):
        K = o['K']
        return (canon(K.exactsum.__defaults__), canon(K.dynprog.__defaults__), canon(getattr(K.exactsum, '__dict__', {})), o['ver'],
                repr(o['last']))

    ACC = [('exactsum-own-result-list', (1, 3, 6), 4), ('exactsum-own-result-list', (3, 5, 7), 4), ('exactsum-own-result-list', (2, 2, 5), 7)]

    def events(self, o):
        return list(self.CALLS) + list(self.ACC) + [('shared-list', 'exactsum', 43), ('shared-list', 'dynprog', 43), ('shared-list', 'exactsum', 5), ('shared-list', 'dynprog', 12),
                                   ('overwrite-shared-list',), ('scribble-last-result',)]

    def apply(self, o, ev):
        if ev[0] == 'overwrite-shared-list':
            o['ver'] = (o['ver'] + 1) % len(self.SHARED)
            o['L'][:] = items_of(self.SHARED[o['ver']])        # same list object, same length, other couples
            return None
        if ev[0] == 'scribble-last-result':
            if isinstance(o['last'], list):
                o['last'].append(('junk', 1000))
                if len(o['last']) > 1:
                    o['last'].pop(0)
            return None
        if ev[0] == 'shared-list':
            v = getattr(o['K'], ev[1])(o['L'], ev[2])
            o['last'] = v
            o['items'] = list(items_of(self.SHARED[o['ver']]))
            return list(v) if isinstance(v, list) else v
        if ev[0] == 'exactsum-own-result-list':
            o['acc'] = []
            return o['K'].exactsum(items_of(ev[1]), ev[2], 0, o['acc'])
        f = getattr(o['K'], ev[0])
        v = f(items_of(ev[1]), ev[2])
        o['last'] = v
        return list(v) if isinstance(v, list) else v

    def judge(self, ctx, hist, ev, res, o):
        if ev[0] in ('overwrite-shared-list', 'scribble-last-result'):
            return
        if ev[0] == 'shared-list':
            judge_subset(ctx, 'C20/history/%s/caller-owned-list' % ev[1], o['items'], ev[2], res, ev[1] == 'dynprog')
            ctx.eq('C20/history/%s/caller-owned-list/input-mutated' % ev[1], list(o['L']), o['items'])
            return
        items = items_of(ev[1])
        if ev[0] == 'exactsum-own-result-list':
            judge_acc(ctx, 'C20/history/exactsum/own-result-list', items, ev[2], res, o.get('acc', []))
            return
        judge_subset(ctx, 'C20/history/%s' % ev[0], items, ev[2], res, ev[0] == 'dynprog')
        def first_answer():
            K2 = fresh_knapsack()
            try:
                v = getattr(K2, ev[0])(items_of(ev[1]), ev[2])
                return ('ok', list(v) if isinstance(v, list) else v)
            except Exception as e:
                return ('exc', type(e).__name__)
        first = pristine(first_answer)      # in a forked child: the module under test is not touched by the oracle
        ctx.eq('C20/history/%s/answer-depends-on-earlier-calls' % ev[0], res, first)


class CombSys(HSystem):
    """two caller-held combink enumerations that are started, advanced, drained, closed or simply dropped in any order"""
    SPECS = [(1, 1), (4, 2), (5, 3), (3, 3)]

    def fresh(self):
        import crysp.utils.perms as Pm
        return {'P': importlib.reload(Pm), 'A': None, 'B': None}

    def canon(self, o):
        f = o['P'].combink
        return (canon(getattr(f, '__dict__', {})), canon(f.__defaults__),
                tuple(None if o[x] is None else (o[x]['spec'], o[x]['pos'], o[x]['dead']) for x in 'AB'))

    def events(self, o):
        ev = []
        for x in 'AB':
            ev += [('start', x, i) for i in range(len(self.SPECS))]
            if o[x] is not None:
                ev += [('next', x), ('drain', x), ('close', x), ('drop', x)]
        return ev

    def apply(self, o, ev):
        x = ev[1]
        if ev[0] == 'start':
            n, p = self.SPECS[ev[2]]
            o[x] = None                                     # the enumeration held before is dropped first
            o[x] = {'spec': (n, p), 'pos': 0, 'dead': False, 'g': o['P'].combink([chr(97 + i) for i in range(n)], p, 0)}
            return None
        sl = o[x]
        if ev[0] == 'drop':
            o[x] = None
            return None
        if ev[0] == 'close':
            sl['dead'] = True
            return sl['g'].close()
        if ev[0] == 'next':
            sl['pos'] += 1
            try:
                return tuple(next(sl['g']))
            except StopIteration:
                sl['dead'] = True
                return 'stop'
        sl['was'], sl['pos'], sl['dead'] = sl['pos'], 1 << 20, True
        return [tuple(c) for c in sl['g']]

    def judge(self, ctx, hist, ev, res, o):
        if ev[0] in ('start', 'drop', 'close'):
            ctx.eq('C20/combink/iterators/%s' % ev[0], res, ('ok', None))
            return
        sl = o[ev[1]]
        n, p = sl['spec']
        full = list(itertools.combinations([chr(97 + i) for i in range(n)], p))
        if ev[0] == 'next':
            i = sl['pos'] - 1
            closed = any(h[0] == 'close' and h[1] == ev[1] for h in self._since_start(hist, ev[1]))
            exp = 'stop' if (closed or i >= len(full)) else full[i]
            ctx.eq('C20/combink/iterators/next-with-another-enumeration-around', res, ('ok', exp))
        else:
            closed = any(h[0] == 'close' and h[1] == ev[1] for h in self._since_start(hist, ev[1]))
            ctx.eq('C20/combink/iterators/rest-with-another-enumeration-around', res, ('ok', [] if closed else full[sl['was']:]))

    @staticmethod
    def _since_start(hist, x):
        out = []
        for h in hist:
            if h[0] == 'start' and h[1] == x:
                out = []
            elif len(h) > 1 and h[1] == x:
                out.append(h)
        return out


def systems(tier):
    return {'knapsack': SubsetSys()}


def comb_systems(tier):
    return {'combink': CombSys()}


def subchecks():
    return [
        Sub('permutk', pts_perm, run_perm, engine='D',
            bound='every list over {0,1,2} of length 0..5 (thorough 0..6) and range(n), reversed range(n) for n<=6 (8), every k<=n: multiset of yields, list restored after exhaustion'),
        Sub('nextperm', pts_next, run_next, engine='D',
            bound='every permutation of range(n), n=1..5 (6), and every arrangement of every multiset over {0,1,2} of size 1..5 (6): successor with wrap-around'),
        Sub('combink', pts_comb, run_comb, engine='D', bound='n=1..6 (7), every 1<=p<=n, three element kinds, vs itertools.combinations; repeated enumeration'),
        Sub('subset-sum', pts_subset, run_subset, engine='D',
            bound='every item list of length 0..5 (thorough 0..6) with weights in {1,2,3,5} x every target 0..sum+1 (exactsum: 1..sum+1), each on a freshly loaded module'),
        Sub('big-weights', pts_bigweights, run_bigweights, engine='D', bound='exactsum on every 1-3 subset of 5 weights around 2^53, 2^60, 2^64 x every reachable target and two unreachable ones (dynprog is O(target) and not run there)'),
        Sub('zero-weights', pts_zero, run_zero, engine='D', bound='every item list of length 1..4 (thorough 5) over weights {0,1,2,3} with at least one zero weight x every target'),
        Sub('scaled-instances', pts_scaled, run_scaled, engine='D',
            bound='every multiset of 3 weights over {1,2,3,6} multiplied by 22000 (targets beyond 2^16), with and without one unscaled item of weight 7, targets t*22000 and t*22000+7 for t in {sum, sum/2, max, sum-min, sum+1} (thorough: every t in 1..sum+1, both item orders): dynprog minimal, exactsum exact, vs brute force'),
        hsub('combink-iterators', comb_systems, lambda tier: 4 if tier == 'quick' else 5,
             bound='two caller-held combink enumerations over 4 (n,p) shapes: start / next / drain / close / drop on either, all histories to depth 4 (thorough 5) on one loaded module; every yielded combination and every remainder equals itertools.combinations; state = function attributes + (shape, position, liveness) of both'),
        hsub('call-histories', systems, lambda tier: 3 if tier == 'quick' else 4,
             bound='8 exactsum/dynprog calls, 3 exactsum calls with the caller\'s own result list, 4 calls on one caller-owned list object, overwriting that list in place, scribbling on the last returned result; all histories to depth 3 (thorough 4) on one loaded module, deduplicated by the functions\' default-argument state'),
    ]


ASSUMPTIONS = ['permutk: the list is judged after the generator is exhausted, not when it is abandoned half-way',
               'exactsum with target 0 is not judged (True may be read as the empty selection); failure value = None or False',
               'nextperm on the empty list is not exercised']
