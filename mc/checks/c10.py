"""C10 - one-shot results depend only on the arguments, never on earlier calls (engine H).

Per object kind: a fresh object (plus a sibling instance built with other constructor arguments),
a menu of one-shot events (judged) and perturbation events (not judged: unfinished incremental
updates, duplex, calls on the sibling, use of a shared inner object).  All histories up to the depth
bound are explored breadth-first, deduplicated by the canonical state of object + sibling; every
judged transition must return exactly what the same event returns on a fresh, equally configured
object (computed in a forked child that starts from the import-time state of the library)."""
import copy, os
from mc.engine import short,  HSystem, hsub, Sub, canon, library_globals, diff_globals, h8, pristine
from mc.common import ramp, expander

m1 = b'abc'
m2 = ramp(200, 7, 1)
m3 = expander(64, 1)


def B1(b):
    from crysp.bits import Bits
    return Bits(b, bitorder=1)


def obs(v):
    """JSON-able / hashable observation of a returned value"""
    if isinstance(v, (bytes, bytearray)):
        return bytes(v)
    if v is None or isinstance(v, (int, str, bool)):
        return v
    if isinstance(v, (list, tuple)):
        return tuple(obs(x) for x in v)
    if hasattr(v, 'ival'):
        return ('obj', obs(v.ival if not isinstance(v.ival, list) else list(v.ival)))
    return ('obj', type(v).__name__)


_PRISTINE = {}
_GLOBALS0 = {}


class Kind(HSystem):
    """events: list of (name, fn(o, s) -> value, judged)"""

    def __init__(self, name, make, events, sibling=None, singleton=None):
        self.name = name
        self.make = make
        self.sibling = sibling
        self.singleton = singleton     # (module name, attribute) for module-level shared instances
        self.evs = {e[0]: e for e in events}
        self.order = [e[0] for e in events]
        self._base = {}

    def _obj(self):
        if self.singleton:
            import importlib
            mod = importlib.import_module(self.singleton[0])
            o = getattr(mod, self.singleton[1])
            key = self.singleton
            if key not in _PRISTINE:
                _PRISTINE[key] = copy.deepcopy(o.__dict__)
            o.__dict__.clear()
            o.__dict__.update(copy.deepcopy(_PRISTINE[key]))
            return o
        return self.make()

    def fresh(self):
        if not self._base:
            # before this process touches the library: the reference answers, each from its own pristine child
            for ev in self.order:
                if self.evs[ev][2]:
                    self._base[ev] = pristine(lambda: self.solo(ev))
        # shared module-level instances touched by an earlier exploration in this process go back to their import-time state
        import importlib
        for (mn, an), d in _PRISTINE.items():
            so = getattr(importlib.import_module(mn), an)
            so.__dict__.clear()
            so.__dict__.update(copy.deepcopy(d))
        if 'g' not in _GLOBALS0:
            _GLOBALS0['g'] = library_globals()
        return {'o': self._obj(), 's': self.sibling() if self.sibling else None}

    def canon(self, st):
        g = library_globals()
        changed = tuple((k, h8(g.get(k))) for k in diff_globals(_GLOBALS0['g'], g)) if 'g' in _GLOBALS0 else ()
        return (canon(st['o']), canon(st['s']), changed)

    def events(self, st):
        return list(self.order)

    def apply(self, st, ev):
        return obs(self.evs[ev][1](st['o'], st['s']))

    def run_hist(self, hist):
        st = self.fresh()
        r = None
        for ev in hist:
            try:
                r = ('ok', self.apply(st, ev))
            except Exception as e:
                r = ('exc', type(e).__name__)
        return r

    def base(self, ev):
        """what the event returns on a fresh, equally configured object in a process where nothing else of the
        library has been used since import: computed in a forked child of the (pristine) parent image"""
        return self._base[ev]

    def solo(self, ev):
        # only the object the event talks to is constructed (the sibling for sibling events, else the object alone)
        is_sib = ev.startswith('sibling')
        st = {'o': None if is_sib else self._obj(), 's': self.sibling() if (is_sib and self.sibling) else None}
        try:
            return ('ok', self.apply(st, ev))
        except Exception as e:
            return ('exc', type(e).__name__)

    def judge(self, ctx, hist, ev, res, st):
        # module-/class-level state is not judged by itself (a correctly keyed cache is harmless); it is part of the
        # canonical state, so histories that change it are explored further, and it is reported in the evidence
        if diff_globals(_GLOBALS0['g'], library_globals()):
            ctx.extra['transitions_that_changed_library_globals'] += 1
        ctx.cmps += 1
        if not self.evs[ev][2]:
            ctx.obs.add(h8(('perturbation', self.name, ev, res)))
            return
        exp = self.base(ev)
        ctx.obs.add(h8(res))
        if res == exp:
            return
        # minimise: drop events of the history while the judged event still deviates from a fresh object
        h = list(hist)
        i = len(h) - 1
        while i >= 0:
            cand = h[:i] + h[i + 1:]
            if self.run_hist(tuple(cand) + (ev,)) != exp:
                h = cand
            i -= 1
        ctx.fail('C10/%s/%s/after/%s' % (self.name, ev, '+'.join(h) or '(itself)'), exp, res, 'full history: %s' % '>'.join(hist + (ev,)))


def hash_events(bitlen=True, update=None):
    ev = [('h(m1)', lambda o, s: o(m1), True), ('h(m2)', lambda o, s: o(m2), True)]
    if bitlen:
        ev += [('h(m1,bitlen=20)', lambda o, s: o(m1, bitlen=20), True), ('h(m1,bitlen=99)!', lambda o, s: o(m1, bitlen=99), True)]
    if update:
        ev.append(('update-unfinished', update, False))
    return ev


def kinds(tier):
    from crysp.sha import SHA1, SHA2, SHA3
    from crysp.md import MD4, MD5, MD6
    from crysp.keccak import Keccak
    from crysp.blake import Blake, Blake2
    from crysp.skein import Skein
    from crysp.hmac import HMAC
    from crysp.tlsh import TLSH
    from crysp.nilsimsa import Nilsimsa
    from crysp.aes import AES
    from crysp.des import DES, TDEA
    from crysp.serpent import Serpent
    from crysp.threefish import Threefish
    from crysp import mode as Mo
    from crysp.padding import nopadding, X923
    from crysp.salsa20 import Salsa20
    from crysp.chacha import Chacha
    K = {}
    sib_call = lambda name: (name, lambda o, s: s(m3), True)

    def upd(blk):
        def f(o, s):
            o.update(blk)
        return f

    def md6r(d, L, key=b''):
        o = MD6(d, Key=key, L=L)
        o.rounds = 12
        return o
    for nm, mk, sb, blk in (('SHA1', lambda: SHA1(1), lambda: SHA1(0), 64), ('SHA0', lambda: SHA1(0), lambda: SHA1(1), 64),
                            ('SHA2-256', lambda: SHA2(256), lambda: SHA2(224), 64), ('SHA2-512/224', lambda: SHA2(512, 224), lambda: SHA2(512), 128),
                            ('MD4', MD4, MD5, 64), ('MD5', MD5, MD4, 64)):
        K[nm] = Kind(nm, mk, hash_events(True, upd(b'x' * blk)) + [sib_call('sibling-h(m3)')], sibling=sb)
    K['MD6-same-shape-other-key'] = Kind('MD6-same-shape-other-key', lambda: md6r(224, 64, b'abcde12345'),
                                         [('h(m1)', lambda o, s: o(m1), True), ('h(600B)', lambda o, s: o(ramp(600, 3, 1)), True),
                                          ('sibling-h(m1)', lambda o, s: s(m1), True), ('sibling-h(600B)', lambda o, s: s(ramp(600, 3, 1)), True)],
                                         sibling=lambda: md6r(224, 64, b'0123456789'))
    K['SHA3-256'] = Kind('SHA3-256', lambda: SHA3(256),
                         [('h(m1)', lambda o, s: o(m1), True), ('h(m2)', lambda o, s: o(m2), True),
                          ('duplex(a)', lambda o, s: o.duplex(b'a'), False), sib_call('sibling-h(m3)')], sibling=lambda: SHA3(512))
    kev = [('h(m1)', lambda o, s: o(m1), True), ('h(m2)', lambda o, s: o(m2), True),
           ('h(m1,bitlen=5)', lambda o, s: o(m1, bitlen=5), True), ('h(m1,r=512)', lambda o, s: o(m1, r=512), True),
           ('h(m1,bitlen=99)!', lambda o, s: o(m1, bitlen=99), True),
           ('h(m1,bitlen=99,r=512)!', lambda o, s: o(m1, bitlen=99, r=512), True),
           ('h(not bytes,r=136)!', lambda o, s: o(12345, r=136), True),
           ('duplex(a)', lambda o, s: o.duplex(b'a'), False), sib_call('sibling-h(m3)')]
    K['Keccak'] = Kind('Keccak', lambda: Keccak(r=1024, c=576, len=64), kev, sibling=lambda: Keccak(b=200, r=40, len=16))
    K['keccak_256'] = Kind('keccak_256', None, kev, sibling=lambda: Keccak(b=200, r=40, len=16), singleton=('crysp.keccak', 'keccak_256'))
    for nm, mk in (('MD6-tree', lambda: md6r(256, 64)), ('MD6-seq', lambda: md6r(256, 0)), ('MD6-keyed', lambda: md6r(224, 1, b'key'))):
        K[nm] = Kind(nm, mk, [('h(m1)', lambda o, s: o(m1), True), ('h(600B)', lambda o, s: o(ramp(600, 3, 1)), True),
                              ('h(m1,bitlen=20)', lambda o, s: o(m1, bitlen=20), True), ('h(m1,bitlen=99)!', lambda o, s: o(m1, bitlen=99), True),
                              sib_call('sibling-h(m3)')], sibling=lambda: md6r(160, 2, b'other'))

    def blake_upd(blk):
        def f(o, s):
            o.initstate()
            o.update(blk)
        return f
    bev = hash_events(True, None) + [('h(m1,s=5)', lambda o, s: o(m1, 5), True), sib_call('sibling-h(m3)')]
    K['Blake-256'] = Kind('Blake-256', lambda: Blake(256), bev + [('update-unfinished', blake_upd(b'x' * 64), False)], sibling=lambda: Blake(224))
    K['Blake-512'] = Kind('Blake-512', lambda: Blake(512), bev + [('update-unfinished', blake_upd(b'x' * 128), False)], sibling=lambda: Blake(384))
    K['blake256'] = Kind('blake256', None, bev + [('update-unfinished', blake_upd(b'x' * 64), False)], sibling=lambda: Blake(224), singleton=('crysp.blake', 'blake256'))
    b2ev = [('h(m1)', lambda o, s: o(m1), True), ('h(m2)', lambda o, s: o(m2), True), ('h(m1,outlen=20)', lambda o, s: o(m1, outlen=20), True),
            ('h(m1,salt)', lambda o, s: o(m1, salt=b's' * (o.wsize // 4)), True), ('h(m1,fanout=2,depth=2,inner=9)', lambda o, s: o(m1, fanout=2, depth=2, inner=9), True),
            ('h(m1,outlen=99)!', lambda o, s: o(m1, outlen=99), True),
            sib_call('sibling-h(m3)'), ('sibling-h(m1,outlen=7)', lambda o, s: s(m1, outlen=7), True)]
    K['Blake2s'] = Kind('Blake2s', lambda: Blake2(256), b2ev + [('update-unfinished', blake_upd(b'x' * 64), False)], sibling=lambda: Blake2(512))
    K['Blake2b'] = Kind('Blake2b', lambda: Blake2(512), b2ev + [('update-unfinished', blake_upd(b'x' * 128), False)], sibling=lambda: Blake2(256))
    K['blake2b'] = Kind('blake2b', None, b2ev, sibling=lambda: Blake2(256), singleton=('crysp.blake', 'blake2b'))
    K['blake2s'] = Kind('blake2s', None, b2ev, sibling=lambda: Blake2(512), singleton=('crysp.blake', 'blake2s'))
    sev = [('h(m1)', lambda o, s: o(m1), True), ('h(m2)', lambda o, s: o(m2), True), ('h(m1,bitlen=20)', lambda o, s: o(m1, bitlen=20), True),
           ('h(m1,bitlen=24)', lambda o, s: o(m1, bitlen=24), True), sib_call('sibling-h(m3)')]
    K['Skein-256'] = Kind('Skein-256', lambda: Skein(256, 256), sev, sibling=lambda: Skein(512, 512))
    K['Skein-256-out520'] = Kind('Skein-256-out520', lambda: Skein(256, 520), sev[:3] + sev[4:], sibling=lambda: Skein(256, 256))
    K['Skein-mac'] = Kind('Skein-mac', lambda: Skein(256, 256, key=b'key', prs=b'prs', nonce=b'n'), sev, sibling=lambda: Skein(256, 256, key=b'other'))
    K['Skein-schema'] = Kind('Skein-schema', lambda: Skein(256, 256), [sev[0], sev[1], sev[4]], sibling=lambda: Skein(256, 256, schema=b'CRSP', version=2))
    K['Skein-schema-rev'] = Kind('Skein-schema-rev', lambda: Skein(512, 512, schema=b'CRSP', version=2, key=b'k'), [sev[0], sev[1], sev[4]], sibling=lambda: Skein(512, 512, key=b'k'))
    K['Skein-prs-vs-nonce'] = Kind('Skein-prs-vs-nonce', lambda: Skein(256, 256, prs=b'same-string'), [sev[0], sev[1], sev[4]], sibling=lambda: Skein(256, 256, nonce=b'same-string'))
    K['Skein-PK-vs-kdf'] = Kind('Skein-PK-vs-kdf', lambda: Skein(256, 256, prs=b'a', PK=b'bb'), [sev[0], sev[1], sev[4]], sibling=lambda: Skein(256, 256, prs=b'a', kdf=b'bb'))
    K['Skein-key-vs-prs'] = Kind('Skein-key-vs-prs', lambda: Skein(512, 512, key=b'zz', nonce=b'n'), [sev[0], sev[1], sev[4]], sibling=lambda: Skein(512, 512, prs=b'zz', nonce=b'n'))
    K['Skein-tree'] = Kind('Skein-tree', lambda: Skein(256, 256, Yl=1, Yf=1, Ym=2), [sev[0], sev[1], sev[4]], sibling=lambda: Skein(256, 256, Yl=2, Yf=1, Ym=3))
    K['HMAC-MD5'] = Kind('HMAC-MD5', lambda: HMAC(MD5(), b'key'),
                         [('mac(m1)', lambda o, s: o(m1), True), ('mac(m2)', lambda o, s: o(m2), True),
                          ('inner-hash-h(m3)', lambda o, s: o.h(m3), False), ('inner-hash-update-unfinished', lambda o, s: o.h.update(b'x' * 64), False),
                          ('sibling-mac(m3)', lambda o, s: s(m3), True)], sibling=lambda: HMAC(MD5(), b'x' * 100))
    K['HMAC-SHA256'] = Kind('HMAC-SHA256', lambda: HMAC(SHA2(256), b'k' * 70),
                            [('mac(m1)', lambda o, s: o(m1), True), ('mac(m2)', lambda o, s: o(m2), True),
                             ('inner-hash-h(m1,bitlen=20)', lambda o, s: o.h(m1, bitlen=20), False),
                             ('inner-hash-update-unfinished', lambda o, s: o.h.update(b'x' * 64), False)])
    long_ = (b'The quick brown fox jumps over the lazy dog. ' * 12)
    tev = [('h(long)', lambda o, s: o(long_), True), ('h(short)', lambda o, s: o(m1), True), ('h(100B,force)', lambda o, s: o(long_[:100], True), True),
           ('h(100B)', lambda o, s: o(long_[:100]), True), ('h(uniform)', lambda o, s: o(b'a' * 400), True),
           ('update-unfinished', lambda o, s: o.update(m2) and None, False),
           ('from_hash', lambda o, s: o.from_hash(bytes(range(1, 36))) and None, False),
           ('from_hash(truncated)!', lambda o, s: o.from_hash(bytes(range(1, 20))) and None, True),
           ('h(list with a bad element)!', lambda o, s: o(list(long_[:300]) + ['x'] + list(long_[:50])), True),
           ('update(list with a bad element)!', lambda o, s: o.update(list(long_[:300]) + [None]) and None, False),
           sib_call('sibling-h(m3)')]
    K['TLSH-128'] = Kind('TLSH-128', lambda: TLSH(128), tev, sibling=lambda: TLSH(256, 4, 3))
    K['tlsh'] = Kind('tlsh', None, tev, sibling=lambda: TLSH(256, 4, 3), singleton=('crysp.tlsh', 'tlsh'))
    K['Nilsimsa'] = Kind('Nilsimsa', lambda: Nilsimsa(), [('h(m1)', lambda o, s: o(m1), True), ('h(m2)', lambda o, s: o(m2), True), ('h(empty)', lambda o, s: o(b''), True),
                                                        ('update-unfinished', lambda o, s: o.update(m1) and None, False), sib_call('sibling-h(m3)')],
                         sibling=lambda: Nilsimsa(17))

    def cipher_events(n):
        return [('enc', lambda o, s: o.enc(ramp(n, 3, 1)), True), ('dec', lambda o, s: o.dec(ramp(n, 5, 2)), True), ('enc(zero)', lambda o, s: o.enc(bytes(n)), True),
                ('enc(short)!', lambda o, s: o.enc(ramp(n - 1)), True), ('dec(long)!', lambda o, s: o.dec(ramp(n + 1)), True),
                ('enc(block+00)!', lambda o, s: o.enc(ramp(n, 3, 1) + b'\0'), True), ('dec(block+00)!', lambda o, s: o.dec(ramp(n, 5, 2) + b'\0'), True),
                ('sibling-enc', lambda o, s: s.enc(ramp(len(s.enc.__self__.K.bytes()) if False else (s.blocksize // 8), 7, 3)), True),
                ('sibling-dec', lambda o, s: s.dec(ramp(s.blocksize // 8, 9, 5)), True)]
    K['AES-128'] = Kind('AES-128', lambda: AES(ramp(16)), cipher_events(16), sibling=lambda: AES(ramp(32, 3)))
    K['AES-256'] = Kind('AES-256', lambda: AES(ramp(32)), cipher_events(16), sibling=lambda: AES(ramp(16, 3)))
    K['AES-128-zero-extended-sibling'] = Kind('AES-128-zero-extended-sibling', lambda: AES(ramp(16)), cipher_events(16), sibling=lambda: AES(ramp(16) + bytes(8)))
    K['AES-256-zero-key-vs-128-zero-key'] = Kind('AES-256-zero-key-vs-128-zero-key', lambda: AES(bytes(32)), cipher_events(16), sibling=lambda: AES(bytes(16)))
    K['DES'] = Kind('DES', lambda: DES(ramp(8, 5, 1)), cipher_events(8), sibling=lambda: DES(ramp(8, 3, 9)))
    K['TDEA'] = Kind('TDEA', lambda: TDEA(ramp(8, 5, 1), ramp(8, 7, 2), ramp(8, 9, 3)), cipher_events(8), sibling=lambda: TDEA(ramp(16, 3, 9)))
    K['Serpent'] = Kind('Serpent', lambda: Serpent(ramp(16)), cipher_events(16), sibling=lambda: Serpent(ramp(32, 3)))
    K['Threefish-256'] = Kind('Threefish-256', lambda: Threefish(ramp(32), ramp(16, 3)), cipher_events(32), sibling=lambda: Threefish(ramp(64, 3), ramp(16, 5)))
    K['Threefish-1024'] = Kind('Threefish-1024', lambda: Threefish(ramp(128), ramp(16, 3)), cipher_events(128), sibling=lambda: Threefish(ramp(32, 3), ramp(16, 5)))

    def mode_events(mk, n, cbc):
        good = {}

        def ct(o, key, m):
            if key not in good:
                good[key] = mk().enc(m)
            return good[key]
        return [('enc(m1)', lambda o, s: o.enc(m1), True), ('enc(2 blocks)', lambda o, s: o.enc(ramp(2 * n, 3, 1)), True), ('enc(empty)', lambda o, s: o.enc(b''), True),
                ('dec(good)', lambda o, s: o.dec(ct(o, 'a', m1)), True), ('dec(good 2 blocks)', lambda o, s: o.dec(ct(o, 'b', ramp(2 * n, 3, 1))), True),
                ('dec(malformed)!', lambda o, s: o.dec(b'\xee' * (2 * n if cbc else n)), True), ('dec(not whole blocks)!', lambda o, s: o.dec(b'y' * (n + 1)), True),
                ('sibling-enc', lambda o, s: s.enc(m3), True)]
    for nm, mk, n, cbc, sb in (('ECB-AES', lambda: Mo.ECB(AES(ramp(16))), 16, False, lambda: Mo.ECB(AES(ramp(16, 3)), pad=X923)),
                               ('ECB-DES', lambda: Mo.ECB(DES(ramp(8, 3, 1))), 8, False, lambda: Mo.ECB(DES(ramp(8, 5, 2)))),
                               ('CBC-AES', lambda: Mo.CBC(AES(ramp(16)), ramp(16, 9, 4)), 16, True, lambda: Mo.CBC(AES(ramp(16)), bytes(16))),
                               ('CBC-DES-x923', lambda: Mo.CBC(DES(ramp(8, 3, 1)), ramp(8, 9, 4), pad=X923), 8, True, lambda: Mo.ECB(DES(ramp(8, 3, 1))))):
        K[nm] = Kind(nm, mk, mode_events(mk, n, cbc), sibling=sb)
    X2 = ramp(32, 3, 1)
    for nm, mk in (('ECB-AES-nopad', lambda: Mo.ECB(AES(ramp(16)), pad=nopadding)), ('CBC-AES-nopad', lambda: Mo.CBC(AES(ramp(16)), ramp(16, 9, 4), pad=nopadding))):
        K[nm] = Kind(nm, mk, [('enc(X)', lambda o, s: o.enc(X2), True), ('dec(X)', lambda o, s: o.dec(X2), True),
                              ('enc(enc(X))', lambda o, s: o.enc(o.enc(X2)[-32:]), True), ('dec(dec(X))', lambda o, s: o.dec(o.dec(X2).ljust(32, b'q')[:32]), True),
                              ('sibling-dec(X)', lambda o, s: s.dec(X2), True)], sibling=mk)

    class SharedCounterPair(object):
        """two CTR objects built on ONE DefaultCounter instance"""
        def __init__(self):
            c = Mo.DefaultCounter(16).setup(ramp(8, 5, 1), (3).to_bytes(8, 'big'))
            self.A = Mo.CTR(AES(ramp(16)), c)
            self.B = Mo.CTR(AES(ramp(16)), c)
    K['CTR-pair-sharing-a-counter'] = Kind('CTR-pair-sharing-a-counter', SharedCounterPair,
                                           [('A.enc(1 block)', lambda o, s: o.A.enc(ramp(16, 3, 1)), True), ('A.enc(2 blocks)', lambda o, s: o.A.enc(ramp(32, 3, 1)), True),
                                            ('B.dec(1 block)', lambda o, s: o.B.dec(ramp(16, 5, 2)), True), ('B.dec(2 blocks)', lambda o, s: o.B.dec(ramp(32, 5, 2)), True),
                                            ('B.enc(3 blocks)', lambda o, s: o.B.enc(ramp(48, 7, 2)), True)])
    K['CTR-pair-sharing-a-counter'].depth = {'quick': 4, 'thorough': 5}
    K['CTR-AES'] = Kind('CTR-AES', lambda: Mo.CTR(AES(ramp(16)), ramp(16, 5, 250)),
                        [('enc(m1)', lambda o, s: o.enc(m1), True), ('enc(40B)', lambda o, s: o.enc(ramp(40, 3, 2)), True), ('dec(40B)', lambda o, s: o.dec(ramp(40, 5, 1)), True),
                         ('enc(empty)', lambda o, s: o.enc(b''), True), ('sibling-enc', lambda o, s: s.enc(m3), True)], sibling=lambda: Mo.CTR(AES(ramp(16)), bytes(16)))
    K['CTR-AES-wrap'] = Kind('CTR-AES-wrap', lambda: Mo.CTR(AES(ramp(16)), ramp(8, 5, 250) + b'\xff' * 7 + b'\xfe'),
                             [('enc(m1)', lambda o, s: o.enc(m1), True), ('enc(40B)', lambda o, s: o.enc(ramp(40, 3, 2)), True), ('dec(70B)', lambda o, s: o.dec(ramp(70, 5, 1)), True),
                              ('sibling-enc', lambda o, s: s.enc(m3), True)], sibling=lambda: Mo.CTR(AES(ramp(16)), b'\xff' * 16))
    K['CTS_ECB-AES'] = Kind('CTS_ECB-AES', lambda: Mo.CTS_ECB(AES(ramp(16))),
                            [('enc(20B)', lambda o, s: o.enc(ramp(20, 3, 1)), True), ('enc(32B)', lambda o, s: o.enc(ramp(32, 3, 1)), True), ('dec(23B)', lambda o, s: o.dec(ramp(23, 5, 1)), True),
                             ('enc(40B)', lambda o, s: o.enc(ramp(40, 7, 1)), True)])
    K['CTS_CBC-AES'] = Kind('CTS_CBC-AES', lambda: Mo.CTS_CBC(AES(ramp(16)), ramp(16, 9, 4)),
                            [('enc(20B)', lambda o, s: o.enc(ramp(20, 3, 1)), True), ('enc(32B)', lambda o, s: o.enc(ramp(32, 3, 1)), True), ('dec(39B)', lambda o, s: o.dec(ramp(39, 5, 1)), True),
                             ('enc(40B)', lambda o, s: o.enc(ramp(40, 7, 1)), True)])
    v1, v2 = ramp(8, 3, 1), b'\xff' * 8

    def dangling(o, s):
        g = o.keystream(B1(v2))
        next(g)
        o._g = g          # keep the suspended generator alive on the object
    for nm, cls in (('Salsa20', Salsa20), ('Chacha', Chacha)):
        ev = [('enc(v1,m1)', lambda o, s: o.enc(B1(v1), m1), True), ('enc(v2,70B)', lambda o, s: o.enc(B1(v2), ramp(70, 3, 1)), True),
              ('dec(v1,70B)', lambda o, s: o.dec(B1(v1), ramp(70, 5, 1)), True), ('keystream-suspended', dangling, False),
              ('sibling-enc', lambda o, s: s.enc(B1(v1), m3), True)]
        if nm == 'Salsa20':
            ev.append(('hash(64B)', lambda o, s: o.hash(ramp(64, 3, 1)), True))
        K[nm] = Kind(nm, (lambda c: (lambda: c(B1(ramp(32)), 8)))(cls), ev, sibling=(lambda c: (lambda: c(B1(ramp(16, 5)), 12)))(cls))
    import crysp.crc as C
    K['crc'] = Kind('crc', lambda: C, [('crc32(m1)', lambda o, s: o.crc32(m1), True), ('crc32(m2)', lambda o, s: o.crc32(m2), True),
                                       ('crc32_fix(m2,t)', lambda o, s: o.crc32_fix(m2, 0x12345678), True), ('crc32_fix_pos(m2,3,t)', lambda o, s: o.crc32_fix_pos(m2, 3, 0xcafebabe), True),
                                       ('crc16-table', lambda o, s: o.crc(m1, o.crc_table(B16()), 0xffff), False)])
    return K


def B16():
    from crysp.bits import Bits
    return Bits(0xA001, 16)


class KindSysProxy(object):
    pass


def systems(tier):
    return kinds(tier)


def depth(tier):
    return 5 if tier == 'thorough' else 3


# ---- long runs: thousands of distinct one-shot calls on one object, then the first ones again ------------------

def _long_kinds():
    from crysp.sha import SHA1, SHA2
    from crysp.md import MD4, MD5
    from crysp.blake import Blake, Blake2
    from crysp.hmac import HMAC
    from crysp.aes import AES
    from crysp.des import DES
    from crysp.threefish import Threefish
    from crysp import mode as Mo
    from crysp.salsa20 import Salsa20
    from crysp.chacha import Chacha
    from crysp.nilsimsa import Nilsimsa
    import crysp.crc as C

    def msg(i, n=12):
        return (i * 0x9e3779b97f4a7c15 + 0x1234567).to_bytes(24, 'big')[-n:]
    return {
        'MD5': (MD5, lambda o, i: o(msg(i))), 'MD4': (MD4, lambda o, i: o(msg(i))), 'SHA1': (lambda: SHA1(1), lambda o, i: o(msg(i))),
        'SHA2-256': (lambda: SHA2(256), lambda o, i: o(msg(i))), 'SHA2-512': (lambda: SHA2(512), lambda o, i: o(msg(i))),
        'Blake-256': (lambda: Blake(256), lambda o, i: o(msg(i))), 'Blake2s': (lambda: Blake2(256), lambda o, i: o(msg(i))),
        'HMAC-MD5': (lambda: HMAC(MD5(), b'key'), lambda o, i: o(msg(i))),
        'AES-128': (lambda: AES(ramp(16)), lambda o, i: o.enc(msg(i, 16))), 'DES': (lambda: DES(ramp(8, 5, 1)), lambda o, i: o.enc(msg(i, 8))),
        'DES-dec': (lambda: DES(ramp(8, 5, 1)), lambda o, i: o.dec(msg(i, 8))),
        'Threefish-256': (lambda: Threefish(ramp(32), ramp(16, 3)), lambda o, i: o.enc(msg(i, 16) + msg(i + 1, 16))),
        'ECB-DES': (lambda: Mo.ECB(DES(ramp(8, 3, 1))), lambda o, i: o.enc(msg(i, 11))),
        'CBC-DES': (lambda: Mo.CBC(DES(ramp(8, 3, 1)), ramp(8, 9, 4)), lambda o, i: o.enc(msg(i, 11))),
        'CTR-DES': (lambda: Mo.CTR(DES(ramp(8, 3, 1)), ramp(8, 5, 250)), lambda o, i: o.enc(msg(i, 11))),
        'Salsa20-nonces': (lambda: Salsa20(B1(ramp(32)), 2), lambda o, i: o.enc(B1(msg(i, 8)), b'abc')),
        'Chacha-nonces': (lambda: Chacha(B1(ramp(32)), 2), lambda o, i: o.enc(B1(msg(i, 8)), b'abc')),
        'Nilsimsa': (Nilsimsa, lambda o, i: o(msg(i, 20))),
        'crc32': (lambda: C, lambda o, i: o.crc32(msg(i))), 'crc32_fix': (lambda: C, lambda o, i: o.crc32_fix(msg(i), i * 2654435761 & 0xffffffff)),
    }


def pts_long(tier):
    n = 9000 if tier == 'thorough' else 1100
    return [(k, n) for k in sorted(_long_kinds())]


def run_long(ctx, pt):
    """one object answers N distinct one-shot calls; calls 0..3 are then asked again and some later ones are checked on the
    way.  Expected answers: the same call as the first call of a fresh object in a forked child (import-time state)."""
    name, N = pt
    mk, call = _long_kinds()[name]
    probe = [0, 1, 2, 3, N // 2, N - 1]

    def solo():
        return [obs(call(mk(), i)) for i in probe]
    base = pristine(solo)
    o = mk()
    got = {}
    for i in range(N):
        r = ctx.attempt(call, o, i)
        if i in probe:
            got[i] = r
    K = 'C10/%s/long-run' % name
    ctx.eq(K + '/answer-during-the-run', [(got[i][0], obs(got[i][1])) for i in probe], [('ok', b) for b in base])
    again = [ctx.attempt(call, o, i) for i in probe[:4]]
    ctx.eq(K + '/first-calls-asked-again-after-%d-other-calls' % N, [(r[0], obs(r[1])) for r in again], [('ok', b) for b in base[:4]])
    o2 = mk()
    ctx.eq(K + '/fresh-object-after-%d-calls-in-the-process' % N, [(lambda r: (r[0], obs(r[1])))(ctx.attempt(call, o2, i)) for i in probe[:2]], [('ok', b) for b in base[:2]])


# ---- a second call that runs in the middle of a first one -------------------------------------------------------------------

def _pairs():
    """(A, B): two calls on two different objects; B is run to completion at a chosen line of A"""
    from crysp.sha import SHA1, SHA2, SHA3
    from crysp.md import MD4, MD5
    from crysp.blake import Blake, Blake2
    from crysp.hmac import HMAC
    from crysp.aes import AES
    from crysp.des import DES
    from crysp.threefish import Threefish
    from crysp.salsa20 import Salsa20
    from crysp.chacha import Chacha
    from crysp.rc4 import RC4
    from crysp import mode as Mo
    import crysp.crc as C
    a, b = b'first message', expander(70, 93)
    return {
        'MD5': (lambda: MD5()(a), lambda: MD5()(b)), 'MD4': (lambda: MD4()(a), lambda: MD4()(b)), 'SHA1': (lambda: SHA1(1)(a), lambda: SHA1(1)(b)),
        'SHA2-256': (lambda: SHA2(256)(a), lambda: SHA2(256)(b)), 'SHA2-256/SHA2-512': (lambda: SHA2(256)(a), lambda: SHA2(512)(b)),
        'SHA2-512/224': (lambda: SHA2(512, 224)(a), lambda: SHA2(512, 256)(b)), 'SHA3-256': (lambda: SHA3(256)(a), lambda: SHA3(256)(b)),
        'Blake-256': (lambda: Blake(256)(a), lambda: Blake(256)(b, 5)), 'Blake2s': (lambda: Blake2(256)(a), lambda: Blake2(256)(b, outlen=20)),
        'Blake2b/Blake2s': (lambda: Blake2(512)(a), lambda: Blake2(256)(b)), 'HMAC-MD5': (lambda: HMAC(MD5(), b'k1')(a), lambda: HMAC(MD5(), b'key two')(b)),
        'AES': (lambda: AES(ramp(16)).enc(ramp(16, 3, 1)), lambda: AES(ramp(32, 5)).dec(ramp(16, 7, 2))), 'DES': (lambda: DES(ramp(8, 5, 1)).enc(ramp(8, 3, 1)), lambda: DES(ramp(8, 3, 9)).dec(ramp(8, 7, 2))),
        'Threefish': (lambda: Threefish(ramp(32), ramp(16, 3)).enc(ramp(32, 5, 1)), lambda: Threefish(ramp(64, 3), ramp(16, 5)).enc(ramp(64, 7, 1))),
        'Salsa20': (lambda: Salsa20(B1(ramp(32)), 8).enc(B1(ramp(8, 3, 1)), a), lambda: Salsa20(B1(ramp(16, 5)), 12).enc(B1(ramp(8, 5, 2)), b)),
        'Chacha': (lambda: Chacha(B1(ramp(32)), 8).enc(B1(ramp(8, 3, 1)), a), lambda: Chacha(B1(ramp(16, 5)), 12).enc(B1(ramp(8, 5, 2)), b)),
        'RC4': (lambda: RC4(b'key').enc(a), lambda: RC4(b'other').enc(b)), 'CBC-DES': (lambda: Mo.CBC(DES(ramp(8, 3, 1)), ramp(8, 9, 4)).enc(a), lambda: Mo.CBC(DES(ramp(8, 5, 2)), bytes(8)).enc(b)),
        'CTR-AES': (lambda: Mo.CTR(AES(ramp(16)), ramp(16, 5, 250)).enc(a), lambda: Mo.CTR(AES(ramp(16, 3)), bytes(16)).enc(b)), 'crc32': (lambda: C.crc32(a), lambda: C.crc32_fix_pos(b, 3, 0xcafebabe)),
    }


def _run_with_intrusion(fa, fb, at):
    """run fa(); when its `at`-th line event inside the library is reached, run fb() to completion (as another thread that
    is scheduled there and runs until it is done would), then let fa() continue.  Returns (ra, rb, number of line events)."""
    import sys, os
    root = os.path.dirname(__import__('crysp').__file__)
    state = {'n': 0, 'rb': None}

    def tracer(frame, event, arg):
        if not frame.f_code.co_filename.startswith(root):
            return None
        if event == 'line':
            state['n'] += 1
            if state['n'] == at:
                sys.settrace(None)
                try:
                    state['rb'] = ('ok', obs(fb()))
                except Exception as e:
                    state['rb'] = ('exc', type(e).__name__)
                sys.settrace(tracer)
        return tracer
    sys.settrace(tracer)
    try:
        try:
            ra = ('ok', obs(fa()))
        except Exception as e:
            ra = ('exc', type(e).__name__)
    finally:
        sys.settrace(None)
    return ra, state['rb'], state['n']


def pts_intr(tier):
    return [(name, d, tier) for name in sorted(_pairs()) for d in (0, 1)]


def run_intr(ctx, pt):
    """call B (another object) runs to completion in the middle of call A, at G evenly spaced line events of A inside the
    library (G = 20, thorough 400; every line when A has fewer): schedules of two threads with at most one preemption, on a
    grid of preemption points.  Both results equal the results of the calls made alone."""
    name, d, tier = pt
    fa, fb = _pairs()[name]
    x, y, tag = ((fa, fb, 'B-inside-A'), (fb, fa, 'A-inside-B'))[d]
    alone_x = pristine(lambda: ('ok', obs(x())))
    alone_y = pristine(lambda: ('ok', obs(y())))
    _, _, n = _run_with_intrusion(x, y, -1)
    G = 400 if tier == 'thorough' else 20
    pts = sorted({1 + (i * (n - 1)) // max(1, G - 1) for i in range(G)} | {1, 2, n}) if n > G else list(range(1, n + 1))
    ctx.extra['preemption_points'] += len(pts)
    ctx.extra['max_line_events_of_one_call'] = max(ctx.extra['max_line_events_of_one_call'], n)
    for p in pts:
        rx, ry, _ = _run_with_intrusion(x, y, p)
        ctx.calls += 2
        ctx.cmps += 1
        if (rx, ry) != (alone_x, alone_y):
            # reported in the evidence, NOT as a violation: the property speaks of EARLIER calls; scratch state shared between
            # instances is harmless in a sequential program and would be a false alarm here.  VERIF_JUDGE_NESTED=1 turns it
            # into a verdict (used to demonstrate that the exploration does find such interference).
            ctx.extra['nested_calls_that_interfered'] += 1
            if len(ctx.samples) < 3:
                ctx.samples.append({'pair': name, 'order': tag, 'at_line_event': p, 'of': n, 'result': short((rx, ry), 120)})
            if os.environ.get('VERIF_JUDGE_NESTED') == '1':
                ctx.eq('C10/%s/second-call-running-in-the-middle-of-the-first/%s' % (name, tag), (rx, ry, 'at library line event %d of %d' % (p, n)), (alone_x, alone_y, 'at any point'))
            break


# ---- deep copies ---------------------------------------------------------------------------------------------------

def pts_deepcopy(tier):
    return sorted(k for k, v in kinds(tier).items() if not v.singleton)


def run_deepcopy(ctx, name):
    """copy.deepcopy of an object (fresh, or after one earlier event) is an equally configured object: it answers every
    judged call like a fresh one, and using it does not change what the original answers (objects that cannot be deep-copied
    are not judged)"""
    K = kinds('thorough')[name]
    K.fresh()                      # reference answers from pristine children
    judged = [e for e in K.order if K.evs[e][2] and not e.startswith('sibling')][:4]
    for pre in [None] + K.order[:6]:
        st = K.fresh()
        if pre is not None:
            try:
                K.apply(st, pre)
            except Exception:
                pass
        try:
            d = {'o': copy.deepcopy(st['o']), 's': st['s']}
        except Exception:
            continue
        for ev in judged:
            for who, obj in (('copy', d), ('original', st), ('copy', d)):
                try:
                    r = ('ok', K.apply(obj, ev))
                except Exception as e:
                    r = ('exc', type(e).__name__)
                ctx.eq('C10/%s/%s/on-a-deep-copy/%s-after/%s' % (name, ev, who, pre or '(nothing)'), r, K.base(ev))


# ---- argument types: the same byte string handed over as bytes, bytearray, memoryview ---------------------------------

def _typed_kinds():
    from crysp.sha import SHA1, SHA2, SHA3
    from crysp.md import MD4, MD5, MD6
    from crysp.blake import Blake, Blake2
    from crysp.skein import Skein
    from crysp.keccak import Keccak
    from crysp.hmac import HMAC
    from crysp.aes import AES
    from crysp.des import DES
    from crysp import mode as Mo
    from crysp.rc4 import RC4
    from crysp.salsa20 import Salsa20
    from crysp.nilsimsa import Nilsimsa
    from crysp.tlsh import TLSH

    def md6():
        o = MD6(256, L=64)
        o.rounds = 8
        return o
    return {
        'MD4': lambda m: MD4()(m), 'MD5': lambda m: MD5()(m), 'SHA1': lambda m: SHA1(1)(m), 'SHA2-256': lambda m: SHA2(256)(m), 'SHA2-384': lambda m: SHA2(384)(m),
        'SHA3-256': lambda m: SHA3(256)(m), 'Keccak-b200': lambda m: Keccak(b=200, r=40, len=16)(m), 'Blake-256': lambda m: Blake(256)(m), 'Blake-512': lambda m: Blake(512)(m),
        'Blake2s': lambda m: Blake2(256)(m), 'Blake2b': lambda m: Blake2(512)(m), 'Skein-256': lambda m: Skein(256, 256)(m), 'Skein-512-tree': lambda m: Skein(512, 512, Yl=1, Yf=1, Ym=2)(m),
        'MD6-256': lambda m: md6()(m), 'HMAC-MD5': lambda m: HMAC(MD5(), b'key')(m), 'HMAC-SHA2-256 key-as-that-type': lambda m: HMAC(SHA2(256), m)(b'abc') if len(m) else None,
        'ECB-AES': lambda m: Mo.ECB(AES(ramp(16))).enc(m), 'CBC-DES': lambda m: Mo.CBC(DES(ramp(8, 3, 1)), ramp(8, 9, 4)).enc(m), 'CTR-AES': lambda m: Mo.CTR(AES(ramp(16)), ramp(16, 5, 250)).enc(m),
        'CTS_CBC-AES': lambda m: Mo.CTS_CBC(AES(ramp(16)), ramp(16, 9, 4)).enc(m) if len(m) >= 16 else None, 'RC4': lambda m: RC4(b'key').enc(m),
        'Salsa20': lambda m: Salsa20(B1(ramp(32)), 8).enc(B1(ramp(8, 3, 1)), m), 'Nilsimsa': lambda m: Nilsimsa()(m), 'TLSH': lambda m: TLSH(128)(m, True),
    }


def _ctor_kinds():
    """objects whose constructor arguments (key, IV, counter block, nonce) are given as bytearray / memoryview; each is used
    for three calls in a row"""
    from crysp.aes import AES
    from crysp.des import DES
    from crysp import mode as Mo
    from crysp.hmac import HMAC
    from crysp.md import MD5
    from crysp.skein import Skein
    from crysp.rc4 import RC4
    from crysp.threefish import Threefish
    return {
        'CBC-AES iv': lambda cv: Mo.CBC(AES(ramp(16)), cv(ramp(16, 9, 4))), 'CBC-DES iv': lambda cv: Mo.CBC(DES(ramp(8, 3, 1)), cv(ramp(8, 9, 4))),
        'CTS_CBC-AES iv': lambda cv: Mo.CTS_CBC(AES(ramp(16)), cv(ramp(16, 9, 4))), 'ECB-AES key': lambda cv: Mo.ECB(AES(cv(ramp(16)))),
        'ECB-DES key': lambda cv: Mo.ECB(DES(cv(ramp(8, 3, 1)))), 'ECB-Threefish key+tweak': lambda cv: Mo.ECB(Threefish(cv(ramp(32)), cv(ramp(16, 3)))),
        'HMAC-MD5 key': lambda cv: HMAC(MD5(), cv(b'key material')), 'Skein-mac key': lambda cv: Skein(256, 256, key=cv(b'key'), nonce=cv(b'n')),
    }


def pts_ctor(tier):
    return sorted(_ctor_kinds())


def run_ctor(ctx, name):
    mk = _ctor_kinds()[name]
    m = expander(150, 92)
    call = (lambda o, x: o.enc(x)) if hasattr(mk(bytes), 'enc') else (lambda o, x: o(x))
    want = []
    ob = mk(bytes)
    for k in range(3):
        r = ctx.attempt(call, ob, m[:40 + k])
        want.append((r[0], obs(r[1])))
    for conv in (bytearray, memoryview):
        try:
            o2 = mk(conv)
        except Exception:
            continue
        got = []
        for k in range(3):
            r = ctx.attempt(call, o2, m[:40 + k])
            got.append((r[0], obs(r[1])))
        if all(g[0] == 'ok' for g in got):
            ctx.eq('C10/%s/constructor-argument-as-%s/three-calls' % (name, conv.__name__), got, want)


def pts_types(tier):
    return [(k, n) for k in sorted(_typed_kinds()) for n in (0, 1, 55, 64, 65, 150, 700)]


def run_types(ctx, pt):
    """a byte string is a byte string: where a bytearray or a memoryview is accepted at all (a value is returned), the value
    is the one returned for the equal bytes object; where it is refused, nothing is judged"""
    name, n = pt
    f = _typed_kinds()[name]
    m = expander(n, 91)
    base = ctx.attempt(f, m)
    if base[0] != 'ok':
        return
    for conv in (bytearray, memoryview, list):
        a = conv(m)
        r = ctx.attempt(f, a)
        if r[0] == 'ok':
            ctx.eq('C10/%s/result-depends-on-the-type-of-the-byte-string/%s' % (name, conv.__name__), obs(r[1]), obs(base[1]))
    # and the bytes call again afterwards
    ctx.eq('C10/%s/bytes-call-after-other-argument-types' % name, (lambda r: (r[0], obs(r[1])))(ctx.attempt(f, m)), (base[0], obs(base[1])))


# ---- first use: every ordered pair of configurations, each pair in its own process ---------------------------

def configs():
    """name -> thunk performing one one-shot call on a freshly constructed object of that configuration"""
    from crysp.sha import SHA1, SHA2, SHA3
    from crysp.md import MD4, MD5, MD6
    from crysp.keccak import Keccak
    from crysp.blake import Blake, Blake2
    from crysp.skein import Skein
    from crysp.hmac import HMAC
    from crysp.tlsh import TLSH
    from crysp.nilsimsa import Nilsimsa
    from crysp.aes import AES
    from crysp.des import DES, TDEA
    from crysp.serpent import Serpent
    from crysp.threefish import Threefish
    from crysp import mode as Mo
    from crysp.salsa20 import Salsa20
    from crysp.chacha import Chacha
    from crysp.rc4 import RC4
    import crysp.crc as C
    import crysp.blake as BL
    import crysp.keccak as KE
    import crysp.tlsh as TL
    txt = (b'The quick brown fox jumps over the lazy dog. ' * 12)
    c = {}
    for n in (224, 256, 384, 512):
        c['SHA2-%d' % n] = (lambda n: lambda: SHA2(n)(m1))(n)
        c['SHA3-%d' % n] = (lambda n: lambda: SHA3(n)(m1))(n)
        c['Blake-%d' % n] = (lambda n: lambda: Blake(n)(m1))(n)
        c['Blake2(%d)' % n] = (lambda n: lambda: Blake2(n)(m1))(n)
    c['SHA2-512/224'] = lambda: SHA2(512, 224)(m1)
    c['SHA2-512/256'] = lambda: SHA2(512, 256)(m1)
    c['SHA1'] = lambda: SHA1(1)(m1)
    c['SHA0'] = lambda: SHA1(0)(m1)
    c['MD4'] = lambda: MD4()(m1)
    c['MD5'] = lambda: MD5()(m1)
    c['blake256 (module instance)'] = lambda: BL.blake256(m1)
    c['blake2b (module instance)'] = lambda: BL.blake2b(m1)
    c['blake2s (module instance)'] = lambda: BL.blake2s(m1)
    c['blake2b outlen=20'] = lambda: Blake2(512)(m1, outlen=20)
    c['keccak_256 (module instance)'] = lambda: KE.keccak_256(m1)
    c['Keccak b=200'] = lambda: Keccak(b=200, r=40, len=16)(m1)
    c['Keccak r=1024'] = lambda: Keccak(r=1024, c=576, len=64)(m1)
    for n in (256, 512, 1024):
        c['Skein-%d' % n] = (lambda n: lambda: Skein(n, n)(m1))(n)
        c['Threefish-%d' % n] = (lambda n: lambda: Threefish(ramp(n // 8), ramp(16, 3)).enc(ramp(n // 8, 5, 1)))(n)
    c['Skein-256-224'] = lambda: Skein(256, 224)(m1)
    c['Skein-512 keyed'] = lambda: Skein(512, 512, key=b'key')(m1)

    def md6(d, L, key=b''):
        o = MD6(d, Key=key, L=L)
        o.rounds = 8
        return o
    c['MD6-256'] = lambda: md6(256, 64)(m1)
    c['MD6-224 seq keyed'] = lambda: md6(224, 0, b'k')(m1)
    c['HMAC-MD5'] = lambda: HMAC(MD5(), b'key')(m1)
    c['HMAC-SHA2-512/256'] = lambda: HMAC(SHA2(512, 256), b'key')(m1)
    c['HMAC-Blake-224'] = lambda: HMAC(Blake(224), b'key')(m1)
    for n in (16, 24, 32):
        c['AES-%d' % (8 * n)] = (lambda n: lambda: AES(ramp(n)).enc(ramp(16, 3, 1)))(n)
        c['AES-%d dec' % (8 * n)] = (lambda n: lambda: AES(ramp(n)).dec(ramp(16, 3, 1)))(n)
    c['DES'] = lambda: DES(ramp(8, 5, 1)).enc(ramp(8, 3, 1))
    c['DES dec'] = lambda: DES(ramp(8, 5, 1)).dec(ramp(8, 3, 1))
    c['TDEA'] = lambda: TDEA(ramp(8, 5, 1), ramp(8, 7, 2), ramp(8, 9, 3)).enc(ramp(8, 3, 1))
    c['Serpent-128'] = lambda: Serpent(ramp(16)).enc(ramp(16, 3, 1))
    c['Serpent-256'] = lambda: Serpent(ramp(32)).enc(ramp(16, 3, 1))
    c['CBC-AES'] = lambda: Mo.CBC(AES(ramp(16)), ramp(16, 9, 4)).enc(m1)
    c['CTR-DES'] = lambda: Mo.CTR(DES(ramp(8, 3, 1)), ramp(8, 5, 250)).enc(m1)
    c['ECB-AES'] = lambda: Mo.ECB(AES(ramp(16))).enc(m1)
    c['Salsa20/20-256'] = lambda: Salsa20(B1(ramp(32)), 20).enc(B1(ramp(8, 3, 1)), m1)
    c['Salsa20/8-128'] = lambda: Salsa20(B1(ramp(16)), 8).enc(B1(ramp(8, 3, 1)), m1)
    c['Chacha/20-256'] = lambda: Chacha(B1(ramp(32)), 20).enc(B1(ramp(8, 3, 1)), m1)
    c['Chacha/8-128'] = lambda: Chacha(B1(ramp(16)), 8).enc(B1(ramp(8, 3, 1)), m1)
    c['RC4'] = lambda: RC4(b'key').enc(m1)
    c['TLSH-128'] = lambda: TLSH(128)(txt)
    c['TLSH-256-w4-c3'] = lambda: TLSH(256, 4, 3)(txt)
    c['tlsh (module instance)'] = lambda: TL.tlsh(txt)
    c['Nilsimsa'] = lambda: Nilsimsa()(txt)
    c['Nilsimsa-17'] = lambda: Nilsimsa(17)(txt)
    c['crc32'] = lambda: C.crc32(m1)
    c['crc32_fix_pos'] = lambda: C.crc32_fix_pos(m2, 3, 0xcafebabe)
    c['crc-16'] = lambda: C.crc(m1, C.crc_table(B16()), 0xffff)
    return c


def pts_firstuse(tier):
    names = sorted(configs())
    return [(a, b) for a in names for b in names if a != b]


def run_firstuse(ctx, pt):
    """process P1 (a forked child of this untouched worker): B alone.  This worker: A first, then B.  Same answer."""
    a, b = pt
    cf = configs()

    def solo():
        try:
            return ('ok', obs(cf[b]()))
        except Exception as e:
            return ('exc', type(e).__name__)
    base = pristine(solo)
    ctx.attempt(cf[a])
    r = ctx.attempt(cf[b])
    ctx.eq('C10/first-use/%s/after/%s' % (b, a), (r[0], obs(r[1])), base)
    if a.split('-')[0].split(' ')[0] == b.split('-')[0].split(' ')[0]:
        # same family: once more the other way round inside this process (A after B after A)
        r2 = ctx.attempt(cf[a])
        base_a = pristine(lambda: ('ok', obs(configs()[a]())))
        ctx.eq('C10/first-use/%s/after/%s' % (a, b + '+' + a), (r2[0], obs(r2[1])), base_a)


def subchecks():
    return [Sub('nested-calls', pts_intr, run_intr, engine='H', exhaustive=False, chunk=1,
                bound='20 pairs of one-shot calls on two different objects (same class other arguments, sibling sizes, cipher / mode / stream pairs): call B runs to completion at 20 (thorough 400) evenly spaced line events of call A inside the library (every line when A is shorter), and A inside B - two-thread schedules with one preemption on a grid of preemption points (a call has 400 to 220000 line events; the grid is a stated cap, not full line coverage); interference is counted in the evidence (extra.nested_calls_that_interfered) and is a verdict only with VERIF_JUDGE_NESTED=1, because the property speaks of earlier calls, not of concurrent ones'),
            Sub('deep-copies', pts_deepcopy, run_deepcopy, engine='H', chunk=1,
                bound='every object kind of the histories subcheck (module instances excepted): a deep copy taken from a fresh object and after each of its first 6 events; up to 4 judged calls on the copy, on the original, on the copy again vs pristine answers'),
            Sub('constructor-argument-types', pts_ctor, run_ctor, engine='P',
                bound='8 object kinds whose key / IV / tweak / nonce is handed to the constructor as bytearray or memoryview: three calls in a row equal the three calls of the object built from bytes (kinds that refuse the type are not judged)'),
            Sub('argument-types', pts_types, run_types, engine='P',
                bound='24 object kinds x 7 message lengths: the message as bytes, bytearray, memoryview and list of ints - a returned value equals the one for bytes (refusals are not judged)'),
            Sub('first-use-pairs', pts_firstuse, run_firstuse, engine='H', chunk=1,
                bound='every ordered pair (A, B) of 77 configurations (every SHA-2 / SHA-3 / BLAKE / BLAKE2 size incl. the unusual ones, module instances, Keccak, Skein, MD6, HMAC, AES / DES / TDEA / Serpent / Threefish in both directions, modes, stream ciphers, TLSH, Nilsimsa, CRC): A is used first in a fresh process, then B; B answers what it answers when it is the first thing the process does'),
            Sub('long-runs', pts_long, run_long, engine='H', exhaustive=False, chunk=1,
                bound='20 object kinds (hashes, HMAC, block ciphers, modes, stream ciphers under changing nonces, Nilsimsa, crc32, crc32_fix): one object answers 1100 (thorough 9000) distinct one-shot calls, then the first four again, then a fresh object; answers vs the same call made first in a forked child'),
            hsub('histories', systems, depth,
                 split=lambda tier: 1 if tier == 'quick' else 3, bound='60 object kinds (SHA1/SHA0/SHA2/SHA3/Keccak/MD4/MD5/MD6 x3/Blake x2/Blake2 x2/Skein x4/HMAC x2/TLSH/Nilsimsa/AES x2/DES/TDEA/Serpent/Threefish x2/ECB x2/CBC x2/CTR/CTS x2/Salsa20/Chacha/crc and the module singletons keccak_256, blake256, blake2b, blake2s, tlsh), each with 4-9 events (one-shot calls incl. per-call options and calls that raise; perturbations: unfinished updates, duplex, suspended keystream generators, sibling instances, shared inner objects); all histories to depth 3 (thorough 5), deduplicated by the canonical state of object + sibling; the module- and class-level state of the library is part of the canonical state (histories that change it are explored further) and reference answers come from forked children that start from the import-time state')]



RULE = 'BFS over call histories per object kind; an observation is the returned bytes or the exception class; distinct_nontrivial counts distinct (kind,event,result) observations'
ASSUMPTIONS = ['perturbation events (their own results are legitimately history dependent) are executed but not judged',
               'HMAC.setkey and RC4 are not part of this check (reconfiguration / stream state by design; see C13, C06)',
               'a failing history is minimised by dropping events while the judged event still deviates; the class key names kind, judged event and the minimal culprit set']
