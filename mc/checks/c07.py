"""C07 - Bits construction and conversions are faithful under every bit order.
Model: a vector is (n, x), bit i = (x >> i) & 1."""
from mc.engine import Sub
from mc.common import ramp, expander


def rev8(b):
    return int('{:08b}'.format(b)[::-1], 2)


def model_load(s, order):
    """documented meaning of Bits(bytes, bitorder): groups of |order| bytes (0: one group), each a
    big-endian integer, groups placed little-endian; every byte bit-reversed first when order < 0"""
    l = len(s)
    f = rev8 if order < 0 else (lambda b: b)
    k = abs(order) if order != 0 else l
    v = 0
    for gi, i in enumerate(range(0, l, k)):
        x = 0
        for b in s[i:i + k]:
            x = (x << 8) | f(b)
        v |= x << (8 * k * gi)
    return (8 * l, v)


def val(b):
    return (b.ival, b.size, b.mask)


def mval(n, x):
    return (x, n, (1 << n) - 1)


def pts_small(tier):
    w = 18 if tier == 'thorough' else 13
    return [(n, c) for n in range(w + 1) for c in range(0, 1 << n, 256)]


def run_small(ctx, pt):
    from crysp.bits import Bits, pack, unpack
    n, c = pt
    for x in range(c, min(c + 256, 1 << n)):
        bl = [(x >> i) & 1 for i in range(n)]
        K = 'C07/'
        b = Bits(x, n)
        ctx.eq(K + 'from-int-size', val(b), mval(n, x))
        if x.bit_length() == n:
            ctx.eq(K + 'from-int', val(Bits(x)), mval(n, x))
        ctx.eq(K + 'from-bitlist', val(Bits(bl)), mval(n, x))
        ctx.eq(K + 'from-bits', val(Bits(b)), mval(n, x))
        ctx.eq(K + 'from-bits-resized', val(Bits(b, size=n + 3)), mval(n + 3, x))
        ctx.eq(K + 'from-int-truncating', val(Bits(x | (1 << n), size=n)), mval(n, x))
        ctx.eq(K + 'int', b.int(), x)
        ctx.eq(K + 'index', (int(b), b.__index__(), len(b)), (x, x, n))
        if n >= 1:
            ctx.eq(K + 'int-signed', ctx.attempt(b.int, -1), ('ok', x - (1 << n) if bl[-1] else x))
        ctx.eq(K + 'bit', [ctx.attempt(b.bit, i) for i in range(-n, n)], [('ok', bl[i]) for i in range(-n, n)])
        if n >= 1:
            ctx.eq(K + 'bit-out-of-range', (ctx.attempt(b.bit, n)[0], ctx.attempt(b.bit, -n - 1)[0]), ('exc', 'exc'))
        ctx.eq(K + 'iter', list(b), bl)
        ctx.eq(K + 'bitlist', (b.bitlist(), b.bitlist(1), b.bitlist(-1)), (bl, bl, bl[::-1]))
        s = ''.join(str(v) for v in bl)
        ctx.eq(K + 'str', str(b), s)
        ctx.eq(K + 'todots', b.todots(), '|' + s.replace('0', ' ').replace('1', '.') + '|')
        by = bytes(sum(bl[8 * j + i] << (7 - i) for i in range(8) if 8 * j + i < n) for j in range((n + 7) // 8))
        ctx.eq(K + 'bytes', (b.bytes(), bytes(b)), (by, by))
        ctx.eq(K + 'hex', b.hex(), by.hex().encode())
        ctx.eq(K + 'pack-le', pack(b), x.to_bytes((n + 7) // 8, 'little'))
        ctx.eq(K + 'pack-le-explicit', pack(b, '<L'), x.to_bytes((n + 7) // 8, 'little'))
        ctx.eq(K + 'pack-be', pack(b, '>L'), x.to_bytes((n + 7) // 8, 'big'))       # the big-endian encoding of the integer, any size
        if n % 8 == 0:
            if n:
                for fmt in ('<L', '>L'):
                    r = ctx.attempt(lambda: val(Bits(*unpack(pack(b, fmt), bigend=(fmt == '>L')))))
                    ctx.eq(K + 'unpack-pack-roundtrip', r, ('ok', mval(n, x)))
        ctx.eq(K + 'bytes-roundtrip', val(Bits(b.bytes(), size=n)), mval(n, x))
        ctx.eq(K + 'bitlist-roundtrip', val(Bits(b.bitlist())), mval(n, x))
        ctx.eq(K + 'str-roundtrip', val(Bits([int(ch) for ch in str(b)])), mval(n, x))
        ctx.eq(K + 'operand-unchanged', val(b), mval(n, x))


def orders(l):
    o = [-1, 1]
    if l:
        o.append(0)
    o += [k for k in range(2, 9) if l and l % k == 0]
    o += [-k for k in range(2, 9) if l and l % k == 0]      # groups of k bytes read msb first (Bits.load docstring)
    return o


def pts_bytes2(tier):
    return [(l, hi) for l in range(0, 3) for hi in (range(256) if l == 2 else [0])]


def run_bytes2(ctx, pt):
    from crysp.bits import Bits
    l, hi = pt
    for lo in (range(256) if l >= 1 else [0]):
        s = bytes([lo, hi][:l])
        for o in orders(l):
            n, x = model_load(s, o)
            r = ctx.attempt(lambda: val(Bits(s, bitorder=o)))
            ctx.eq('C07/from-bytes/bitorder=%d' % o, r, ('ok', mval(n, x)))
            for sz in (0, 1, 7, 8 * l - 1, 8 * l, 8 * l + 5):
                if sz >= 0:
                    r = ctx.attempt(lambda: val(Bits(s, size=sz, bitorder=o)))
                    ctx.eq('C07/from-bytes-size/bitorder=%d' % o, r, ('ok', mval(sz, x & ((1 << sz) - 1))))


def pts_long(tier):
    return [(l, d) for l in range(1, 41) for d in ('ramp', 'exp', 'asc')]


def run_long(ctx, pt):
    from crysp.bits import Bits, pack, unpack
    l, d = pt
    s = {'ramp': ramp(l, 37, 5), 'exp': expander(l, 1), 'asc': bytes(range(1, l + 1))}[d]
    def oname(o):
        return o if abs(o) <= 1 else ('k' if o > 0 else '-k')
    for o in orders(l):
        n, x = model_load(s, o)
        r = ctx.attempt(lambda: val(Bits(s, bitorder=o)))
        ctx.eq('C07/from-bytes/bitorder=%s' % oname(o), r, ('ok', mval(n, x)))
        for sz in sorted({0, 1, 7, 8, 9, 4 * l, 8 * l - 17, 8 * l - 9, 8 * l - 8, 8 * l - 3, 8 * l, 8 * l + 5}):
            if sz < 0:
                continue
            r = ctx.attempt(lambda: val(Bits(s, size=sz, bitorder=o)))
            ctx.eq('C07/from-bytes-size/bitorder=%s' % oname(o), r, ('ok', mval(sz, x & ((1 << sz) - 1))))
    # and the judged orders once more in reverse sequence
    for o in reversed(orders(l)):
        n, x = model_load(s, o)
        r = ctx.attempt(lambda: val(Bits(s, bitorder=o)))
        ctx.eq('C07/from-bytes/order-of-use/bitorder=%s' % oname(o), r, ('ok', mval(n, x)))
    ctx.eq('C07/unpack-le', ctx.attempt(unpack, s), ('ok', (int.from_bytes(s, 'little'), 8 * l)))
    ctx.eq('C07/unpack-be', ctx.attempt(unpack, s, True), ('ok', (int.from_bytes(s, 'big'), 8 * l)))
    x = int.from_bytes(s, 'little')
    b = Bits(x, 8 * l)
    for fmt in ('<L', '>L'):
        r = ctx.attempt(lambda: val(Bits(*unpack(pack(b, fmt), bigend=(fmt == '>L')))))
        ctx.eq('C07/unpack-pack-roundtrip', r, ('ok', mval(8 * l, x)))
    ctx.eq('C07/bytes', b.bytes(), bytes(rev8(c) for c in s))
    ctx.eq('C07/bytes-roundtrip', val(Bits(b.bytes(), size=8 * l)), mval(8 * l, x))


def pts_verylong(tier):
    return [(4098, 3), (4098, 6), (4100, 5), (4104, 9), (8190, 7), (8192, 2), (4097, 1), (4097, -1), (4110, 10), (12288, 12), (4098, 0), (4098, -3), (8190, -6)]


def run_verylong(ctx, pt):
    """byte strings beyond 4 KiB with group sizes that are not powers of two (sampled)"""
    from crysp.bits import Bits
    l, o = pt
    s = expander(l, 9)
    n, x = model_load(s, o)
    ctx.eq('C07/from-bytes/long-string', ctx.attempt(lambda: val(Bits(s, bitorder=o))), ('ok', mval(n, x)))
    b = Bits(x, n)
    ctx.eq('C07/bytes/long-string', ctx.attempt(lambda: val(Bits(b.bytes(), size=n))), ('ok', mval(n, x)))


def pts_longpack(tier):
    ls = [63, 64, 65, 127, 128, 129, 130, 131, 132, 133, 134, 135, 136, 137, 255, 256, 257, 259, 1023, 1024, 1025, 1027, 4095, 4097, 4099, 65535, 65537]
    return [(l, d) for l in ls for d in ('exp', 'ff', 'tail')]


def run_longpack(ctx, pt):
    """generalized unpack / pack on byte strings whose length is not a multiple of 8, 4, 2 (a tail after the 8-byte words)"""
    from crysp.bits import Bits, pack, unpack
    l, d = pt
    s = {'exp': expander(l, 11), 'ff': b'\xff' * l, 'tail': bytes(l - 3) + b'\x01\x80\xff'}[d]
    ctx.eq('C07/unpack-le/long-string', ctx.attempt(unpack, s), ('ok', (int.from_bytes(s, 'little'), 8 * l)))
    ctx.eq('C07/unpack-be/long-string', ctx.attempt(unpack, s, True), ('ok', (int.from_bytes(s, 'big'), 8 * l)))
    x = int.from_bytes(s, 'little')
    b = Bits(x, 8 * l)
    ctx.eq('C07/pack-le/long-string', ctx.attempt(pack, b), ('ok', s))
    ctx.eq('C07/pack-be/long-string', ctx.attempt(pack, b, '>L'), ('ok', s[::-1]))
    for fmt in ('<L', '>L'):
        r = ctx.attempt(lambda: val(Bits(*unpack(pack(b, fmt), bigend=(fmt == '>L')))))
        ctx.eq('C07/unpack-pack-roundtrip/long-string', r, ('ok', mval(8 * l, x)))


def pts_wide(tier):
    ws = list(range(17, 131)) + [255, 256, 257, 1023, 1024, 1025, 2047, 2048, 2049]
    return ws if tier == 'thorough' else [w for w in ws if w < 34 or w in (63, 64, 65, 127, 128, 129, 257, 2048, 2049)]


def run_wide(ctx, pt):
    from crysp.bits import Bits, pack, unpack
    n = pt
    vs = {0, 1, (1 << n) - 1, sum(1 << i for i in range(0, n, 2)), sum(1 << i for i in range(1, n, 2))}
    for k in sorted({1, 7, 8, 9, n // 2, n - 9, n - 8, n - 2, n - 1}):
        if 0 < k < n:
            vs |= {(1 << k) - 1, 1 << k, (1 << k) + 1}
    K = 'C07/wide/'
    for x in sorted(vs):
        bl = [(x >> i) & 1 for i in range(n)]
        b = Bits(x, n)
        ctx.eq(K + 'from-int-size', val(b), mval(n, x))
        ctx.eq(K + 'from-bitlist', val(Bits(bl)), mval(n, x))
        ctx.eq(K + 'int-signed', b.int(-1), x - (1 << n) if bl[-1] else x)
        s = ''.join(str(v) for v in bl)
        ctx.eq(K + 'str', str(b), s)
        by = bytes(sum(bl[8 * j + i] << (7 - i) for i in range(8) if 8 * j + i < n) for j in range((n + 7) // 8))
        ctx.eq(K + 'bytes', b.bytes(), by)
        ctx.eq(K + 'pack-le', pack(b), x.to_bytes((n + 7) // 8, 'little'))
        ctx.eq(K + 'bytes-roundtrip', val(Bits(b.bytes(), size=n)), mval(n, x))
        ctx.eq(K + 'bitlist-roundtrip', val(Bits(b.bitlist())), mval(n, x))
        ctx.eq(K + 'str-roundtrip', val(Bits([int(ch) for ch in str(b)])), mval(n, x))
        ctx.eq(K + 'bit', (b.bit(0), b.bit(n - 1), b.bit(-1), b.bit(-n)), (bl[0], bl[-1], bl[-1], bl[0]))
        ctx.eq(K + 'pack-be', pack(b, '>L'), x.to_bytes((n + 7) // 8, 'big'))
        if n % 8 == 0:
            for fmt in ('<L', '>L'):
                r = ctx.attempt(lambda: val(Bits(*unpack(pack(b, fmt), bigend=(fmt == '>L')))))
                ctx.eq(K + 'unpack-pack-roundtrip', r, ('ok', mval(n, x)))


def subchecks():
    return [
        Sub('small-widths', pts_small, run_small, engine='D',
            bound='every (n,x) with n<=13 (thorough n<=18): all constructors, all conversions out, all round trips'),
        Sub('short-bytes', pts_bytes2, run_bytes2, engine='D',
            bound='every byte string of length 0..2 under bitorder in {-1,+1,0,2,-2}, with and without size'),
        Sub('byte-strings', pts_long, run_long, engine='P',
            bound='every byte length 1..40 x 3 patterns x bitorder in {-1,+1,0} U {k, -k : k in 2..8, k | len}, each with 12 explicit sizes, and the orders again in reverse sequence; generalized unpack both endiannesses'),
        Sub('very-long-byte-strings', pts_verylong, run_verylong, engine='P', exhaustive=False, bound='13 byte strings of 4097..12288 bytes with group sizes 1, 2, 3, 5, 6, 7, 9, 10, 12, -3, -6 and the one-integer order'),
        Sub('long-pack-unpack', pts_longpack, run_longpack, engine='P', exhaustive=False,
            bound='27 byte lengths 63..65537 around multiples of 8 / 64 / 128 / 1024 / 4096 / 65536 x 3 contents (one with a non-zero tail only): unpack both endiannesses, pack both formats, round trips'),
        Sub('wide', pts_wide, run_wide, engine='P', exhaustive=False,
            bound='widths 17..130, 255..257, 1023..1025, 2047..2049 (quick: subset) x {0,1,2^k-1,2^k,2^k+1,2^n-1,alternating}; sampled per the property statement'),
    ]


ASSUMPTIONS = ['negative bitorder magnitudes above 1 are judged by the Bits.load docstring (groups of k bytes, each byte read msb first); the property statement names -1, +1, 0 and k and refers to the documentation for the rest',
               'bitorder=0 on the empty string is not exercised']
