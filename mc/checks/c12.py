"""C12 - Skein hash, MAC and tree hash equal the Skein 1.3 specification."""
import itertools
from mc.engine import Sub, InternalError
from mc.checks.firstuse import firstuse_sub
from mc.common import ramp, expander, zero_words
from mc.refs import skein as RS

NBS = (256, 512, 1024)


def mk(Nb, No, **kw):
    from crysp.skein import Skein
    return Skein(Nb, No, **kw)


def pts_len(tier):
    pts = []
    for Nb in NBS:
        nb = Nb // 8
        if Nb == 256 or tier == 'thorough':
            Ls = list(range(0, (2 * Nb + 10) if Nb < 1024 else (Nb + 138)))
            if tier == 'thorough':
                Ls += [8 * 4 * nb - k for k in range(8)]
        else:
            bl = [0, 1, nb - 1, nb, nb + 1, 2 * nb, 2 * nb + 1, 4 * nb]
            Ls = sorted({8 * n - k for n in bl for k in range(8) if 8 * n - k >= 0})
        for L in Ls:
            pts.append((Nb, L))
        for k in (5, 8, 17, 33) + ((64, 65) if tier == 'thorough' else ()):
            for dn in (-8, -3, 0, 8):
                pts.append((Nb, k * Nb + dn))
    return pts


def run_len(ctx, pt):
    Nb, L = pt
    nb = Nb // 8
    K = 'C12/skein%d' % Nb
    for kind in (0, 1):
        M = (ramp if kind == 0 else expander)((L + 7) // 8, 3) if kind else bytes([(255 - i) & 255 for i in range((L + 7) // 8)])
        exp = RS.skein(Nb, Nb, M, L)
        ctx.shape((Nb, L % 8 != 0, L % Nb == 0, L // Nb))
        cls = 'bit-length' if L % 8 else 'bitlen-multiple-of-8'
        ctx.eq('%s/%s' % (K, cls), ctx.attempt(lambda: mk(Nb, Nb)(M, bitlen=L)), ('ok', exp))
        if L % 8 == 0:
            ctx.eq(K + '/byte-message', ctx.attempt(lambda: mk(Nb, Nb)(M)), ('ok', exp))
        if kind == 0:
            # second call on an object that already hashed another (multi-block, non byte-aligned) message
            def second():
                o = mk(Nb, Nb)
                o(b'\xa5' * (2 * nb + 3), bitlen=8 * (2 * nb + 3) - 5)
                return o(M, bitlen=L)
            ctx.eq('%s/%s/reused-object' % (K, cls), ctx.attempt(second), ('ok', exp))
        if L % 64 == 0 and L and kind == 0:
            zm = zero_words(L // 8, 8, nb)
            ctx.eq(K + '/byte-message/zero-words', ctx.attempt(lambda: mk(Nb, Nb)(zm)), ('ok', RS.skein(Nb, Nb, zm)))
        if L and kind == 0:
            for extra in (1, nb):
                ctx.eq(K + '/prefix-of-longer-container', ctx.attempt(lambda: mk(Nb, Nb)(M + b'\x5a' * extra, bitlen=L)), ('ok', exp))


def pts_out(tier):
    pts = []
    for Nb in NBS:
        if Nb == 256 or (tier == 'thorough' and Nb == 512):
            Nos = list(range(8, 4 * Nb + 1, 8))
        else:
            Nos = [8, Nb // 2, Nb, Nb + 8, 2 * Nb, 4 * Nb]
        for No in Nos:
            pts.append((Nb, No))
        for No in (1, 7, 9, Nb - 1, Nb + 1, 2 * Nb + 3):
            pts.append((Nb, No))
        # far beyond the stated 4*Nb: more than 256 output blocks (the output counter needs a second byte)
        pts.append((Nb, 257 * Nb + 8))
    return pts


def run_out(ctx, pt):
    Nb, No = pt
    for M in (b'', b'\xff', expander(Nb // 8 + 3, 4)) if No <= 4 * Nb else (b'\xff',):
        r = ctx.attempt(lambda: mk(Nb, No)(M))
        cls = 'output-longer-than-state' if No > Nb else 'output'
        if No % 8:
            cls = 'output-bits-not-multiple-of-8'
        exp = RS.skein(Nb, No, M)
        if No % 8:
            # only the byte count is fixed by the statement for No not a multiple of 8
            ctx.ok('C12/skein%d/%s' % (Nb, cls), r[0] == 'ok' and len(r[1]) == (No + 7) // 8, r, 'ceil(No/8) bytes')
            continue
        ctx.eq('C12/skein%d/%s' % (Nb, cls), r, ('ok', exp))
        if r[0] == 'ok':
            ctx.eq('C12/skein%d/output-size' % Nb, len(r[1]), (No + 7) // 8)


def pts_args(tier):
    pts = []
    for Nb in NBS:
        for ki in range(5):
            for sub in range(16):
                pts.append((Nb, ki, sub))
    return pts


def run_args(ctx, pt):
    Nb, ki, sub = pt
    nb = Nb // 8
    key = [None, b'', b'k', ramp(nb, 5, 1), expander(nb + 1, 6)][ki]
    kw = {}
    for bit, name in enumerate(('prs', 'PK', 'kdf', 'nonce')):
        if sub >> bit & 1:
            kw[name] = (name.encode() + b'-x')[:5]
    for M in (b'abc', expander(nb + 1, 7)):
        r = ctx.attempt(lambda: mk(Nb, Nb, key=key, **kw)(M))
        cls = {0: 'no-key', 1: 'empty-key', 2: 'short-key', 3: 'block-key', 4: 'long-key'}[ki]
        ctx.eq('C12/skein%d/arguments/%s' % (Nb, cls), r, ('ok', RS.skein(Nb, Nb, M, key=key, **kw)))


def pts_tree(tier):
    pts = []
    for Nb in NBS:
        nb = Nb // 8
        shapes = list(itertools.product((1, 2, 3), (1, 2, 3), (2, 3, 4))) if (Nb == 256 or tier == 'thorough') else [(1, 1, 2), (2, 1, 3), (1, 2, 4)]
        for (Yl, Yf, Ym) in shapes:
            Nl = nb << Yl
            Nn = nb << Yf
            sizes = {0, 1, Nl - 1, Nl, Nl + 1, 2 * Nl, 4 * Nl + 3}
            # enough leaves to reach the Ym cap
            leaves = 1
            for _ in range(Ym - 1):
                leaves *= (Nn // nb)
            sizes.add(min((leaves + 1) * Nl, 40 * Nl))
            if Nb != 256 and tier != 'thorough':
                sizes = {0, Nl + 1, 4 * Nl + 3}
            for n in sorted(sizes):
                pts.append((Nb, Yl, Yf, Ym, n))
        # deep trees: more than 128 leaves, height caps beyond the 3-bit range (Ym = 8, 9, 255)
        if Nb == 256 or tier == 'thorough':
            for Ym in (8, 9, 255):
                pts.append((Nb, 1, 1, Ym, 257 * (nb << 1) + 1))
    return pts


def run_tree(ctx, pt):
    Nb, Yl, Yf, Ym, n = pt
    M = expander(n, 8)
    r = ctx.attempt(lambda: mk(Nb, Nb, Yl=Yl, Yf=Yf, Ym=Ym)(M))
    cls = 'empty-message' if n == 0 else 'message'
    ctx.eq('C12/skein%d/tree/%s' % (Nb, cls), r, ('ok', RS.skein(Nb, Nb, M, Yl=Yl, Yf=Yf, Ym=Ym)))


def pts_levels(tier):
    return [(Nb, k, j, keyed) for Nb in NBS for k in ((1, 2) if (Nb == 256 or tier == 'thorough') else (1,)) for j in (1, (1 << k) - 1) for keyed in (0, 1)
            if not (j == 1 and k == 1 and False)]


def run_levels(ctx, pt):
    """level confusion: with Yl == Yf a level-2 node has the size of a leaf and node j sits at the offset of leaf j.  The
    message is crafted (with the reference UBI) so that leaf j IS the input of level-2 node j - the concatenated chaining
    values of leaves j*fan .. (j+1)*fan-1 - and only the tree level in the tweak tells the two compressions apart."""
    import struct
    Nb, k, j, keyed = pt
    nb = Nb // 8
    fan = 1 << k
    Nl = nb << k
    key = b'tree key' if keyed else None
    Ym = 4
    K = b'\0' * nb
    if key:
        K = RS.ubi(K, key, 'key')
    C = b'SHA3' + struct.pack('<HHQ', 1, 0, Nb) + bytes([k, k, Ym]) + b'\0' * 13
    G = RS.ubi(K, C, 'cfg')
    nleaves = fan * fan
    leaves = [expander(Nl, 40 + i) for i in range(nleaves)]
    cv = lambda i: RS.ubi(G, leaves[i], 'msg', level=1, pos0=i * Nl)
    leaves[j] = b''.join(cv(i) for i in range(j * fan, (j + 1) * fan))
    if len(leaves[j]) != Nl or j * fan <= j:
        raise InternalError('crafted leaf has the wrong size')
    M = b''.join(leaves)
    kw = dict(Yl=k, Yf=k, Ym=Ym)
    if key:
        kw['key'] = key
    ctx.eq('C12/skein%d/tree/leaf-equal-to-a-node-of-the-next-level' % Nb, ctx.attempt(lambda: mk(Nb, Nb, **kw)(M)), ('ok', RS.skein(Nb, Nb, M, key=key, Yl=k, Yf=k, Ym=Ym)))
    # the same relation across two calls on one object: first a message P of fan leaves, then a message whose leaf 0 is
    # the input of P's level-2 node 0 (the chaining values of P's leaves)
    o = mk(Nb, Nb, **kw)
    P = [expander(Nl, 60 + i) for i in range(fan)]
    ctx.eq('C12/skein%d/tree/message' % Nb, ctx.attempt(o, b''.join(P)), ('ok', RS.skein(Nb, Nb, b''.join(P), key=key, Yl=k, Yf=k, Ym=Ym)))
    M2 = b''.join(RS.ubi(G, P[i], 'msg', level=1, pos0=i * Nl) for i in range(fan)) + expander(Nl + 1, 78)
    ctx.eq('C12/skein%d/tree/message-starting-with-the-chaining-values-of-the-previous-message' % Nb, ctx.attempt(o, M2), ('ok', RS.skein(Nb, Nb, M2, key=key, Yl=k, Yf=k, Ym=Ym)))


def pts_tweak(tier):
    return ['TreeLevel', 'Position', 'flags', 'Type']


def run_tweak(ctx, what):
    """the tweak word is a 128-bit record: every field written and read back over its whole range, neighbours untouched"""
    from crysp.skein import Tweak
    TYPES = {'key': 0, 'cfg': 4, 'prs': 8, 'PK': 12, 'kdf': 16, 'non': 20, 'msg': 48, 'out': 63}
    if what == 'TreeLevel':
        for lv in range(0, 128):
            t = Tweak(Position=(1 << 96) - 1, Type='out')
            t.TreeLevel = lv
            ctx.eq('C12/tweak/TreeLevel', (t.TreeLevel, t.Position, t.Type, t.BitPad, t.First, t.Final, int(t)),
                   (lv, (1 << 96) - 1, 63, 0, 0, 0, ((1 << 96) - 1) | (lv << 112) | (63 << 120)))
    elif what == 'Position':
        for k in range(0, 96):
            for p in ((1 << k), (1 << k) - 1 if k else 0):
                t = Tweak(TreeLevel=127, Type='msg')
                t.First = 1
                t.Position = p
                ctx.eq('C12/tweak/Position', (t.Position, t.TreeLevel, t.Type, t.First, int(t)), (p, 127, 48, 1, p | (127 << 112) | (48 << 120) | (1 << 126)))
                t.Position += 32
                ctx.eq('C12/tweak/Position', t.Position, p + 32)
    elif what == 'flags':
        for bp in (0, 1):
            for fi in (0, 1):
                for fl in (0, 1):
                    t = Tweak(Position=5, TreeLevel=3, Type='cfg')
                    t.BitPad, t.First, t.Final = bp, fi, fl
                    ctx.eq('C12/tweak/flags', (t.BitPad, t.First, t.Final, int(t)), (bp, fi, fl, 5 | (3 << 112) | (bp << 119) | (4 << 120) | (fi << 126) | (fl << 127)))
    else:
        for name, v in TYPES.items():
            t = Tweak(Position=(1 << 95), TreeLevel=1)
            t.Type = name
            ctx.eq('C12/tweak/Type', (t.Type, int(t)), (v, (1 << 95) | (1 << 112) | (v << 120)))


def pts_ubi(tier):
    pts = [(Nb, p, nblk) for Nb in NBS for p in ((1 << 32) - Nb // 8, (1 << 64) - Nb // 8, (1 << 64) - 1, 1 << 95, (1 << 32) - 1)
           for nblk in (1, 2, 3)]
    # a position carry into every bit 8..95
    pts += [(Nb, (1 << k) - Nb // 8, 2) for Nb in NBS for k in range(8, 96)]
    return pts


def run_ubi(ctx, pt):
    """non-initial state: UBI started at a preset tweak position near a word carry"""
    from crysp.skein import UBI, Tweak
    from crysp.threefish import Threefish
    Nb, p, nblk = pt
    nb = Nb // 8
    for G in (expander(nb, 9), expander(8, 9) * (nb // 8), bytes(nb)):       # also chaining values whose words coincide / are zero
      for tail in (0, 1, nb - 1):
        M = expander((nblk - 1) * nb + (tail or nb), 10)
        r = ctx.attempt(lambda: UBI(Threefish, G, Tweak(Position=p, Type='msg'))(M))
        ctx.eq('C12/ubi/position-carry', r, ('ok', RS.ubi(G, M, 'msg', pos0=p)))


def selftest():
    try:
        return {'threefish_skein_reference_vectors': RS.selftest()}
    except AssertionError as e:
        raise InternalError('reference self-test failed: %r' % (e,))


PROP_ = 'C12'


def fu_targets():
    m = expander(150, 3)
    t = {}
    for Nb in NBS:
        t['skein%d' % Nb] = ((lambda Nb: lambda: mk(Nb, Nb)(m))(Nb), RS.skein(Nb, Nb, m))
    t['skein256 out=224 bitlen'] = (lambda: mk(256, 224)(m, bitlen=1003), RS.skein(256, 224, m, bitlen=1003))
    t['skein512 mac'] = (lambda: mk(512, 512, key=b'key', prs=b'prs', nonce=b'n')(m), RS.skein(512, 512, m, key=b'key', prs=b'prs', nonce=b'n'))
    t['skein256 tree'] = (lambda: mk(256, 256, Yl=1, Yf=1, Ym=3)(m * 3), RS.skein(256, 256, m * 3, Yl=1, Yf=1, Ym=3))
    t['skein1024 out=2056'] = (lambda: mk(1024, 2056)(m), RS.skein(1024, 2056, m))
    return t


def subchecks():
    return [firstuse_sub(PROP_, fu_targets, every=2),
        Sub('lengths', pts_len, run_len, engine='P',
            bound='Skein-256: every bit length 0..2Nb+9; Skein-512/1024: every L mod 8 at byte lengths {0,1,Nb/8-1,Nb/8,Nb/8+1,2Nb/8,2Nb/8+1,4Nb/8} (thorough: every bit length 0..2Nb+9 / 0..Nb+137); bitlen given (also when a multiple of 8) and omitted; containers 1 byte / 1 block longer; 2 data patterns'),
        Sub('output-lengths', pts_out, run_out, engine='P',
            bound='No in every multiple of 8 in 8..4Nb for Nb=256 (thorough also 512), {8,Nb/2,Nb,Nb+8,2Nb,4Nb} otherwise, on 3 messages; byte count only for No not a multiple of 8; one output of 257 blocks+1 byte per state size'),
        Sub('arguments', pts_args, run_args, engine='P',
            bound='key in {absent, empty, 1 byte, one block, one block+1} x every subset of {prs,PK,kdf,nonce} x 2 messages'),
        Sub('tree', pts_tree, run_tree, engine='P',
            bound='Skein-256: (Yl,Yf) in {1,2,3}^2, Ym in {2,3,4} x |M| in {0,1,Nl-1,Nl,Nl+1,2Nl,4Nl+3, enough leaves to hit the Ym cap}; 3 shapes x 3 sizes for 512/1024 (thorough: all 27 shapes x 8 sizes); deep trees of 258 leaves with Ym in {8,9,255}'),
        Sub('tree-level-confusion', pts_levels, run_levels, engine='P',
            bound='3 state sizes x Yl=Yf in {1,2} x node j in {1, fan-1} x keyed/unkeyed: messages of fan^2 leaves in which leaf j equals the concatenated chaining values of leaves j*fan.. (the input of level-2 node j, at the same offset), and the same relation across two calls on one object'),
        Sub('tweak-fields', pts_tweak, run_tweak, engine='D', bound='Tweak record: TreeLevel 0..127, Position 2^k and 2^k-1 for k<96 (+= 32), all 8 flag combinations, all 8 types; written, read back, whole word compared'),
        Sub('ubi-positions', pts_ubi, run_ubi, engine='H',
            bound='UBI started at tweak position 2^32-Nb/8, 2^32-1, 2^64-Nb/8, 2^64-1, 2^95 with 1..3 blocks, and at 2^k-Nb/8 for every k in 8..95 with 2 blocks and 3 tail lengths vs the reference UBI started at the same position'),
    ]


ASSUMPTIONS = ['mc/refs/skein.py (own Threefish + UBI + tree) bound to 16 Skein 1.3 / Threefish specification vectors each run',
               'tree hashing with a bit length is not exercised; for No not a multiple of 8 only the byte count ceil(No/8) is judged']
