"""key / tweak / block families shared by C02 and C03 (all enumerated, fixed constants)"""
from mc.common import single_bits, DATA, ramp, expander

CIPHERS = ['aes128', 'aes192', 'aes256', 'des', 'tdea', 'serpent', 'tf256', 'tf512', 'tf1024']
KEYLEN = {'aes128': 16, 'aes192': 24, 'aes256': 32, 'des': 8, 'tdea': 24, 'serpent': 32, 'tf256': 32, 'tf512': 64, 'tf1024': 128}
BLOCKLEN = {'aes128': 16, 'aes192': 16, 'aes256': 16, 'des': 8, 'tdea': 8, 'serpent': 16, 'tf256': 32, 'tf512': 64, 'tf1024': 128}

WEAK = ['0101010101010101', 'fefefefefefefefe', 'e0e0e0e0f1f1f1f1', '1f1f1f1f0e0e0e0e']
SEMIWEAK = ['01fe01fe01fe01fe', 'fe01fe01fe01fe01', '1fe01fe00ef10ef1', 'e01fe01ff10ef10e', '01e001e001f101f1', 'e001e001f101f101',
            '1ffe1ffe0efe0efe', 'fe1ffe1ffe0efe0e', '011f011f010e010e', '1f011f010e010e01', 'e0fee0fef1fef1fe', 'fee0fee0fef1fef1']


WEAK_BYTES = [0x01, 0xfe, 0xe0, 0xf1, 0x1f, 0x0e]          # the byte values the weak and semi-weak DES keys are written with


def weak_alphabet_keys(stride=1):
    """every key whose two halves are one repeated weak-key byte each (36; the 4 weak keys are among them), and every key
    alternating two such bytes (36; the 12 semi-weak keys are of this form)"""
    halves = [bytes([a]) * 4 + bytes([b]) * 4 for a in WEAK_BYTES for b in WEAK_BYTES]
    alt = [bytes([a, b]) * 4 for a in WEAK_BYTES for b in WEAK_BYTES]
    return halves + alt[::stride]


def family(nbytes, stride=1):
    """single-bit family + {byte v repeated} + DATA, every `stride`-th element of the first two"""
    f = single_bits(nbytes)
    f = f[:2] + f[2::stride]
    f += [bytes([v]) * nbytes for v in range(1, 255, stride)]
    f += DATA(nbytes)[2:]
    return f


def keys(c, stride=1):
    n = KEYLEN[c]
    ks = family(n, stride)
    if c in ('des',):
        ks += [bytes.fromhex(h) for h in WEAK + SEMIWEAK]
        base = expander(8, 2)
        ks += [bytes(b ^ (1 if i == j else 0) for i, b in enumerate(base)) for j in range(8)]   # keys differing only in parity bits
        # every key whose first and last round keys coincide (256, of which 4 are the weak keys), and coincidences of
        # neighbouring round keys: key-schedule value classes that no key family reaches by chance
        from mc.refs import blockciphers as _R
        ks += _R.des_keys_with_equal_round_keys(0, 15)[::stride]
        ks += _R.des_keys_with_equal_round_keys(0, 1)[1::max(stride, 2) * 4]
        ks += _R.des_keys_with_equal_round_keys(7, 8)[1::max(stride, 2) * 4]
        ks += weak_alphabet_keys(stride)
    if c == 'tdea':
        from mc.refs import blockciphers as _R
        sp = _R.des_keys_with_equal_round_keys(0, 15)
        e = expander(8, 12)
        ks += [sp[37] + e + sp[201], e + sp[99] + e, sp[5] + sp[5] + sp[250]]
        e2 = expander(8, 13)
        for j, wk in enumerate(weak_alphabet_keys(6)[::max(2, stride)]):      # a key of the weak-key alphabet in each of the three positions
            ks.append([wk + e + e2, e + wk + e2, e + e2 + wk][j % 3])
    if c.startswith('tf'):
        # keys whose derived parity word k_Nw = C240 ^ k_0 ^ ... takes boundary values (an intermediate that is 0, 1, 2^32-1, ...)
        C240 = 0x1BD11BDAA9FC1A22
        for v in (0, 1, 3, (1 << 32) - 1, 1 << 32, (1 << 63) - 1, 1 << 63, (1 << 64) - 1, (1 << 64) - 2):
            ks.append(bytes(n - 8) + (C240 ^ v).to_bytes(8, 'little'))
            ks.append((C240 ^ v ^ 0x0101010101010101).to_bytes(8, 'little') + (0x0101010101010101).to_bytes(8, 'little') + bytes(n - 16))
    if c.startswith('aes') or c == 'serpent':
        # keys with equal / complementary neighbouring words
        w = expander(4, 7)
        ks.append((w * (n // 4 + 1))[:n])
        ks.append((w + bytes(x ^ 255 for x in w)) * (n // 8) + bytes(n % 8))
    return ks


def fixed_blocks(c):
    n = BLOCKLEN[c]
    return [b'\x00' * n, ramp(n, 7, 1), expander(n, 2)]


def fixed_keys(c):
    n = KEYLEN[c]
    return [b'\x00' * n, ramp(n, 11, 3), expander(n, 3)]


def blocks(c, stride=1):
    return family(BLOCKLEN[c], stride)


def tweaks(stride=1):
    return family(16, stride)


def make(c, key, tweak=None):
    """construct the library object"""
    if c.startswith('aes'):
        from crysp.aes import AES
        return AES(key)
    if c == 'des':
        from crysp.des import DES
        return DES(key)
    if c == 'tdea':
        from crysp.des import TDEA
        return TDEA(key[:8], key[8:16], key[16:24])
    if c == 'serpent':
        from crysp.serpent import Serpent
        return Serpent(key)
    from crysp.threefish import Threefish
    return Threefish(key, tweak if tweak is not None else bytes(16))


def ref_enc(c, key, blk, tweak=None, dec=False):
    from mc.refs import blockciphers as R, serpent as RS, skein as RT
    if c.startswith('aes'):
        return (R.aes_dec if dec else R.aes_enc)(key, blk)
    if c == 'des':
        return R.des_crypt(key, blk, dec)
    if c == 'tdea':
        return (R.tdea_dec if dec else R.tdea_enc)(key[:8], key[8:16], key[16:24], blk)
    if c == 'serpent':
        return (RS.dec if dec else RS.enc)(key, blk)
    t = tweak if tweak is not None else bytes(16)
    return (RT.tf_dec if dec else RT.tf_enc)(key, t, blk)


def tf_crafted_blocks(c, s):
    """blocks (computed with the reference Threefish) for which the state right after subkey injection number s has a last
    word of 0, 1, .., s-1 (the round number just carried it over 2^64), s, 2^64-1, 2^63, or a zero / all-ones first word:
    word values that no block family reaches by chance.  Each block is verified by running the reference forward."""
    from mc.refs import skein as RT
    n = KEYLEN[c]
    key, tw = expander(n, 71), expander(16, 72)
    Nw = n // 8
    base = [int.from_bytes(expander(8, 80 + i), 'little') for i in range(Nw)]
    out = []
    lasts = sorted(set(range(0, min(s, 3) + 1)) | {max(s - 1, 0), s, (1 << 64) - 1, (1 << 64) - s if s else 0, 1 << 63})
    for x in lasts:
        w = list(base)
        w[-1] = x
        out.append(w)
    for x in (0, (1 << 64) - 1):
        w = list(base)
        w[0] = x
        out.append(w)
        w = list(base)
        w[Nw - 2] = x
        out.append(w)
    blocks = []
    for w in out:
        P = RT.tf_block_reaching(key, tw, s, w)
        if RT.tf_state_after_injection(key, tw, P, s) != w:
            raise AssertionError('crafted Threefish block does not reach its internal state')
        blocks.append(P)
    return key, tw, blocks
