"""fixed data alphabets shared by the checks (constants, not seeded)"""
import hashlib


def ramp(n, a=1, b=0):
    return bytes((a * i + b) & 255 for i in range(n))


def expander(n, j=1):
    return hashlib.shake_256(b'crysp-verif' + bytes([j])).digest(n) if n else b''


def DATA(n, full=True):
    d = [b'\x00' * n, b'\xff' * n, ramp(n), expander(n, 1)]
    if full:
        d += [expander(n, 2), expander(n, 3)]
    return d


def single_bits(nbytes):
    """the byte strings of length nbytes with exactly one bit set, plus all-zero and all-one"""
    out = [b'\x00' * nbytes, b'\xff' * nbytes]
    for i in range(8 * nbytes):
        out.append((1 << i).to_bytes(nbytes, 'big'))
    return out


def xor(a, b):
    return bytes(x ^ y for x, y in zip(a, b))


def zero_words(n, wordbytes=8, blockbytes=64, j=7):
    """pseudo-random bytes in which the first and the last word of every block are zero and one inner word is all-ones
    (value classes of message words: a compression input word that is 0 / all-ones)"""
    b = bytearray(expander(n, j))
    for o in range(0, n, blockbytes):
        e = min(o + blockbytes, n)
        b[o:min(o + wordbytes, e)] = bytes(min(wordbytes, e - o))
        if e - o == blockbytes:
            b[e - wordbytes:e] = bytes(wordbytes)
            mid = o + (blockbytes // 2 // wordbytes) * wordbytes
            b[mid:mid + wordbytes] = b'\xff' * wordbytes
    return bytes(b)
