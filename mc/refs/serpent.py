SB=[[ 3, 8,15, 1,10, 6, 5,11,14,13, 4, 2, 7, 0, 9,12],
    [15,12, 2, 7, 9, 0, 5,10, 1,11,14, 8, 6,13, 3, 4],
    [ 8, 6, 7, 9, 3,12,10,15,13, 1,14, 4, 0,11, 5, 2],
    [ 0,15,11, 8,12, 9, 6, 3,13, 1, 2, 4,10, 7, 5,14],
    [ 1,15, 8, 3,12, 0,11, 6, 2, 5, 4,10, 9,14, 7,13],
    [15, 5, 2,11, 4,10, 9,12, 0, 3,14, 8,13, 6, 7, 1],
    [ 7, 2,12, 5, 8, 4, 6,11,14, 9, 1,15,13, 3,10, 0],
    [ 1,13,15, 0,14, 8, 2,11, 7, 4,12,10, 9, 3, 5, 6]]
SBI=[[s.index(i) for i in range(16)] for s in SB]
M32=0xffffffff
def rol(x,n): return ((x<<n)|(x>>(32-n)))&M32
def ror(x,n): return ((x>>n)|(x<<(32-n)))&M32
def sbox(box,w):
    o=[0,0,0,0]
    for j in range(32):
        n=((w[0]>>j)&1)|(((w[1]>>j)&1)<<1)|(((w[2]>>j)&1)<<2)|(((w[3]>>j)&1)<<3)
        s=box[n]
        for t in range(4):
            o[t]|=((s>>t)&1)<<j
    return o
def LT(x):
    x0,x1,x2,x3=x
    x0=rol(x0,13); x2=rol(x2,3); x1^=x0^x2; x3^=x2^((x0<<3)&M32)
    x1=rol(x1,1); x3=rol(x3,7); x0^=x1^x3; x2^=x3^((x1<<7)&M32)
    x0=rol(x0,5); x2=rol(x2,22)
    return [x0,x1,x2,x3]
def LTinv(x):
    x0,x1,x2,x3=x
    x2=ror(x2,22); x0=ror(x0,5); x2^=x3^((x1<<7)&M32); x0^=x1^x3
    x3=ror(x3,7); x1=ror(x1,1); x3^=x2^((x0<<3)&M32); x1^=x0^x2
    x2=ror(x2,3); x0=ror(x0,13)
    return [x0,x1,x2,x3]
def keysched(key_int,nbits):
    assert 0<nbits<=256 or nbits==0
    k=key_int&((1<<nbits)-1)
    if nbits<256: k|=1<<nbits
    w=[(k>>(32*i))&M32 for i in range(8)]
    for i in range(132):
        w.append(rol(w[-8]^w[-5]^w[-3]^w[-1]^0x9e3779b9^i,11))
    w=w[8:]
    return [sbox(SB[(3-i)%8],w[4*i:4*i+4]) for i in range(33)]
def words(b): 
    v=int.from_bytes(b,'little'); return [(v>>(32*i))&M32 for i in range(4)]
def unwords(x): return sum(x[i]<<(32*i) for i in range(4)).to_bytes(16,'little')
def enc(key_bytes,block):
    K=keysched(int.from_bytes(key_bytes,'little'),8*len(key_bytes))
    B=words(block)
    for i in range(31):
        B=LT(sbox(SB[i%8],[B[t]^K[i][t] for t in range(4)]))
    B=sbox(SB[7],[B[t]^K[31][t] for t in range(4)])
    return unwords([B[t]^K[32][t] for t in range(4)])
def dec(key_bytes,block):
    K=keysched(int.from_bytes(key_bytes,'little'),8*len(key_bytes))
    B=words(block)
    B=sbox(SBI[7],[B[t]^K[32][t] for t in range(4)])
    B=[B[t]^K[31][t] for t in range(4)]
    for i in range(30,-1,-1):
        B=sbox(SBI[i%8],LTinv(B))
        B=[B[t]^K[i][t] for t in range(4)]
    return unwords(B)
def selftest():
    """NESSIE Serpent vectors (256-bit keys set 1 v0/v1, set 3 v17; 128-bit key set 1 v0)"""
    h=bytes.fromhex
    kat=[('80'+'00'*31,'00'*16,'A223AA1288463C0E2BE38EBD825616C0'),('40'+'00'*31,'00'*16,'EAE1D405570174DF7DF2F9966D509159'),
         ('11'*32,'11'*16,'A482EAA5D5771F2FDB2EA1A5F141B9E2'),('80'+'00'*15,'00'*16,'264E5481EFF42A4606ABDA06C0BFDA3D')]
    for k,p,c in kat:
        if enc(h(k),h(p)).hex().upper()!=c or dec(h(k),h(c))!=h(p): raise AssertionError(('serpent ref KAT',k))
    return len(kat)
