import struct
M32=0xffffffff
def rol(x,n): return ((x<<n)|(x>>(32-n)))&M32
def salsa_core(x,rounds=20):
    z=list(x)
    def qr(a,b,c,d):
        z[b]^=rol((z[a]+z[d])&M32,7); z[c]^=rol((z[b]+z[a])&M32,9); z[d]^=rol((z[c]+z[b])&M32,13); z[a]^=rol((z[d]+z[c])&M32,18)
    for _ in range(rounds//2):
        qr(0,4,8,12);qr(5,9,13,1);qr(10,14,2,6);qr(15,3,7,11)
        qr(0,1,2,3);qr(5,6,7,4);qr(10,11,8,9);qr(15,12,13,14)
    return [(a+b)&M32 for a,b in zip(x,z)]
def chacha_core(x,rounds=20):
    z=list(x)
    def qr(a,b,c,d):
        z[a]=(z[a]+z[b])&M32; z[d]=rol(z[d]^z[a],16); z[c]=(z[c]+z[d])&M32; z[b]=rol(z[b]^z[c],12)
        z[a]=(z[a]+z[b])&M32; z[d]=rol(z[d]^z[a],8); z[c]=(z[c]+z[d])&M32; z[b]=rol(z[b]^z[c],7)
    for _ in range(rounds//2):
        qr(0,4,8,12);qr(1,5,9,13);qr(2,6,10,14);qr(3,7,11,15)
        qr(0,5,10,15);qr(1,6,11,12);qr(2,7,8,13);qr(3,4,9,14)
    return [(a+b)&M32 for a,b in zip(x,z)]
def _consts(key): return struct.unpack('<4I',b'expand 32-byte k' if len(key)==32 else b'expand 16-byte k')
def salsa_block(key,nonce,ctr,rounds):
    c=_consts(key); k=struct.unpack('<%dI'%(len(key)//4),key)
    k0=k[:4]; k1=k[4:] if len(key)==32 else k[:4]
    n=struct.unpack('<2I',nonce)
    x=[c[0],*k0,c[1],n[0],n[1],ctr&M32,(ctr>>32)&M32,c[2],*k1,c[3]]
    return struct.pack('<16I',*salsa_core(x,rounds))
def chacha_block(key,nonce,ctr,rounds):
    c=_consts(key); k=struct.unpack('<%dI'%(len(key)//4),key)
    k0=k[:4]; k1=k[4:] if len(key)==32 else k[:4]
    n=struct.unpack('<2I',nonce)
    x=[*c,*k0,*k1,ctr&M32,(ctr>>32)&M32,n[0],n[1]]
    return struct.pack('<16I',*chacha_core(x,rounds))
def stream(blockf,key,nonce,rounds,M,ctr0=0):
    out=bytearray()
    for i in range(0,len(M),64):
        ks=blockf(key,nonce,ctr0+i//64,rounds)
        out+=bytes(a^b for a,b in zip(M[i:i+64],ks))
    return bytes(out)
def rc4(key,n):
    S=list(range(256)); j=0
    for i in range(256):
        j=(j+S[i]+key[i%len(key)])&255; S[i],S[j]=S[j],S[i]
    i=j=0; out=bytearray()
    for _ in range(n):
        i=(i+1)&255; j=(j+S[i])&255; S[i],S[j]=S[j],S[i]; out.append(S[(S[i]+S[j])&255])
    return bytes(out)
if __name__=='__main__':
    import sys
    from crysp.salsa20 import Salsa20; from crysp.chacha import Chacha; from crysp.rc4 import RC4; from crysp.bits import Bits
    def msg(l,p=0): return bytes((i*37+11+p)&255 for i in range(l))
    bad=0
    for kl in (16,32):
        for rounds in (2,8,12,20):
            key=msg(kl,1); nonce=msg(8,2)
            for ln in (0,1,63,64,65,130):
                M=msg(ln,5)
                g=Salsa20(Bits(key,bitorder=1),rounds).enc(Bits(nonce,bitorder=1),M)
                if g!=stream(salsa_block,key,nonce,rounds,M): bad+=1; print('salsa mismatch',kl,rounds,ln)
                g=Chacha(Bits(key,bitorder=1),rounds).enc(Bits(nonce,bitorder=1),M)
                if g!=stream(chacha_block,key,nonce,rounds,M): bad+=1; print('chacha mismatch',kl,rounds,ln)
    # salsa hash
    X=msg(64,9)
    print('salsa hash',Salsa20().hash(X)==struct.pack('<16I',*salsa_core(list(struct.unpack('<16I',X)))))
    # rfc-ish: salsa20 spec example hash first bytes
    L=[211,159,13,115,76,55,82,183,3,117,222,37,191,187,234,136,49,237,179,48,1,106,178,219,175,199,166,48,86,16,179,207,31,240,32,63,15,83,93,161,116,147,48,113,238,55,204,36,79,201,235,79,3,81,156,47,203,26,244,243,88,118,104,54]
    r=struct.pack('<16I',*salsa_core(list(struct.unpack('<16I',bytes(L)))))
    print('spec core example',list(r[:3])==[109,42,178],list(r[-3:])==[19,48,202])
    for kl in (1,3,5,16,255,256):
        key=msg(kl,kl)
        if RC4(key).enc(b'\0'*40)!=rc4(key,40): bad+=1; print('rc4 mismatch',kl)
    R=RC4(b'Key'); parts=R.enc(b'\0'*3)+R.enc(b'\0'*5)+R.enc(b'\0'*2)
    print('rc4 split',parts==rc4(b'Key',10), 'bad',bad)
