import struct
M32=0xffffffff
def rol(x,n): return ((x<<n)|(x>>(32-n)))&M32
def salsa_core(x,rounds=20):
    z=list(x)
    def qr(a,b,c,d):
        z[b]^=rol((z[a]+z[d])&M32,7); z[c]^=rol((z[b]+z[a])&M32,9); z[d]^=rol((z[c]+z[b])&M32,13); z[a]^=rol((z[d]+z[c])&M32,18)
    for _ in range(rounds//2):
        qr(0,4,8,12);qr(5,9,13,1);qr(10,14,2,6);qr(15,3,7,11)
        qr(0,1,2,3);qr(5,6,7,4);qr(10,11,8,9);qr(15,12,13,14)
    return [(a+b)&M32 for a,b in zip(x,z)]
def chacha_core(x,rounds=20):
    z=list(x)
    def qr(a,b,c,d):
        z[a]=(z[a]+z[b])&M32; z[d]=rol(z[d]^z[a],16); z[c]=(z[c]+z[d])&M32; z[b]=rol(z[b]^z[c],12)
        z[a]=(z[a]+z[b])&M32; z[d]=rol(z[d]^z[a],8); z[c]=(z[c]+z[d])&M32; z[b]=rol(z[b]^z[c],7)
    for _ in range(rounds//2):
        qr(0,4,8,12);qr(1,5,9,13);qr(2,6,10,14);qr(3,7,11,15)
        qr(0,5,10,15);qr(1,6,11,12);qr(2,7,8,13);qr(3,4,9,14)
    return [(a+b)&M32 for a,b in zip(x,z)]
def _consts(key): return struct.unpack('<4I',b'expand 32-byte k' if len(key)==32 else b'expand 16-byte k')
def salsa_block(key,nonce,ctr,rounds):
    c=_consts(key); k=struct.unpack('<%dI'%(len(key)//4),key)
    k0=k[:4]; k1=k[4:] if len(key)==32 else k[:4]
    n=struct.unpack('<2I',nonce)
    x=[c[0],*k0,c[1],n[0],n[1],ctr&M32,(ctr>>32)&M32,c[2],*k1,c[3]]
    return struct.pack('<16I',*salsa_core(x,rounds))
def chacha_block(key,nonce,ctr,rounds):
    c=_consts(key); k=struct.unpack('<%dI'%(len(key)//4),key)
    k0=k[:4]; k1=k[4:] if len(key)==32 else k[:4]
    n=struct.unpack('<2I',nonce)
    x=[*c,*k0,*k1,ctr&M32,(ctr>>32)&M32,n[0],n[1]]
    return struct.pack('<16I',*chacha_core(x,rounds))
def stream(blockf,key,nonce,rounds,M,ctr0=0):
    out=bytearray()
    for i in range(0,len(M),64):
        ks=blockf(key,nonce,ctr0+i//64,rounds)
        out+=bytes(a^b for a,b in zip(M[i:i+64],ks))
    return bytes(out)
def rc4(key,n):
    S=list(range(256)); j=0
    for i in range(256):
        j=(j+S[i]+key[i%len(key)])&255; S[i],S[j]=S[j],S[i]
    i=j=0; out=bytearray()
    for _ in range(n):
        i=(i+1)&255; j=(j+S[i])&255; S[i],S[j]=S[j],S[i]; out.append(S[(S[i]+S[j])&255])
    return bytes(out)
def rc4_full(key,n):
    """(keystream of n bytes, S, i, j) after generating them"""
    S=list(range(256)); j=0
    for i in range(256):
        j=(j+S[i]+key[i%len(key)])&255; S[i],S[j]=S[j],S[i]
    i=j=0; out=bytearray()
    for _ in range(n):
        i=(i+1)&255; j=(j+S[i])&255; S[i],S[j]=S[j],S[i]; out.append(S[(S[i]+S[j])&255])
    return bytes(out),S,i,j
def selftest():
    import json, os
    n=0
    # Salsa20 specification, section 8 (core example) and section 9/10 (expansion examples)
    L=[211,159,13,115,76,55,82,183,3,117,222,37,191,187,234,136,49,237,179,48,1,106,178,219,175,199,166,48,86,16,179,207,31,240,32,63,15,83,93,161,116,147,48,113,238,55,204,36,79,201,235,79,3,81,156,47,203,26,244,243,88,118,104,54]
    r=struct.pack('<16I',*salsa_core(list(struct.unpack('<16I',bytes(L)))))
    if list(r[:3])!=[109,42,178] or list(r[-3:])!=[19,48,202]: raise AssertionError('salsa20 core example')
    k0=bytes(range(1,17)); k1=bytes(range(201,217)); nn=bytes(range(101,117))
    b=salsa_block(k0+k1,nn[:8],int.from_bytes(nn[8:],'little'),20)
    if list(b[:5])!=[69,37,68,39,41] or list(b[-5:])!=[236,234,103,246,74]: raise AssertionError('salsa20 expansion 32')
    b=salsa_block(k0,nn[:8],int.from_bytes(nn[8:],'little'),20)
    if list(b[:5])!=[39,173,46,248,30] or list(b[-5:])!=[181,104,182,177,193]: raise AssertionError('salsa20 expansion 16')
    # draft-strombergson-chacha-test-vectors TC1 (128-bit zero key, zero IV), 8 and 12 rounds, blocks 0 and 1
    z=bytes(16); iv=bytes(8)
    for rounds,blk,pre in ((8,0,'e28a5fa4a67f8c5d'),(8,1,'8a26af448a1ba906'),(12,0,'e1047ba9476bf8ff'),(12,1,'1d43b61a8f7e19fc')):
        if chacha_block(z,iv,blk,rounds)[:8].hex()!=pre: raise AssertionError(('chacha TC1',rounds,blk))
        n+=1
    kat=json.load(open(os.path.join(os.path.dirname(os.path.dirname(os.path.dirname(os.path.abspath(__file__)))),'kats','streams.json')))
    for e in kat['streams']:
        key=bytes.fromhex(e['key'])
        if e['alg'].startswith('rc4'):
            if rc4(key,e['n']).hex()!=e['ks']: raise AssertionError(('rc4 vs openssl',e['key']))
        else:
            got=stream(chacha_block,key,bytes.fromhex(e['nonce']),20,bytes(e['n']),ctr0=e['counter'])
            if got.hex()!=e['ks']: raise AssertionError(('chacha20 vs openssl',e['key'],e['counter']))
        n+=1
    # RFC 6229, key 0102030405: first 16 keystream bytes
    if rc4(bytes.fromhex('0102030405'),16).hex()!='b2396305f03dc027ccc3524a0a1118a8': raise AssertionError('rc4 rfc6229')
    return n+4
