# reference Keccak sponge on bit lists (LSB-first lane convention), all widths
def _rc_bits():
    # LFSR rc(t)
    R=1; out=[]
    for t in range(255):
        out.append(R&1)
        R<<=1
        if R&0x100: R^=0x171
    return out
_RCB=_rc_bits()
def round_constants(w,nr):
    l={1:0,2:1,4:2,8:3,16:4,32:5,64:6}[w]
    rcs=[]
    for ir in range(nr):
        rc=0
        for j in range(l+1):
            if _RCB[(j+7*ir)%255]: rc|=1<<((1<<j)-1)
        rcs.append(rc)
    return rcs
def _rho_offsets():
    off={(0,0):0}; x,y=1,0
    for t in range(24):
        off[(x,y)]=((t+1)*(t+2)//2)
        x,y=y,(2*x+3*y)%5
    return off
_RHO=_rho_offsets()
def keccak_f(lanes,w):
    l={1:0,2:1,4:2,8:3,16:4,32:5,64:6}[w]
    nr=12+2*l; mask=(1<<w)-1
    def rot(v,n):
        n%=w
        return ((v<<n)|(v>>(w-n)))&mask if n else v
    A=[[lanes[x+5*y] for y in range(5)] for x in range(5)]
    for rc in round_constants(w,nr):
        C=[A[x][0]^A[x][1]^A[x][2]^A[x][3]^A[x][4] for x in range(5)]
        D=[C[(x-1)%5]^rot(C[(x+1)%5],1) for x in range(5)]
        A=[[A[x][y]^D[x] for y in range(5)] for x in range(5)]
        Bm=[[0]*5 for _ in range(5)]
        for x in range(5):
            for y in range(5):
                Bm[y][(2*x+3*y)%5]=rot(A[x][y],_RHO[(x,y)])
        A=[[Bm[x][y]^((~Bm[(x+1)%5][y])&mask&Bm[(x+2)%5][y]) for y in range(5)] for x in range(5)]
        A[0][0]^=rc
    return [A[i%5][i//5] for i in range(25)]
def bits_native(M,L):
    return [(M[i//8]>>(i%8))&1 for i in range(L)]
def bits_nist(M,L):
    q,k=divmod(L,8)
    out=[(M[i//8]>>(i%8))&1 for i in range(8*q)]
    if k:
        v=M[q]>>(8-k)
        out+=[(v>>i)&1 for i in range(k)]
    return out
def sponge_bits(b,r,bits,d):
    w=b//25
    P=list(bits)+[1]
    P+= [0]*((-len(P)-1)%r)+[1]
    assert len(P)%r==0
    S=[0]*25
    def xorin(blk):
        for i,bit in enumerate(blk):
            if bit: S[i//w]^=1<<(i%w)
    def out():
        return [(S[i//w]>>(i%w))&1 for i in range(r)]
    for o in range(0,len(P),r):
        xorin(P[o:o+r]); S[:]=keccak_f(S,w)
    Z=out()
    while len(Z)<d:
        S[:]=keccak_f(S,w); Z+=out()
    return Z[:d]
def pack_bits(Z):
    o=bytearray((len(Z)+7)//8)
    for i,bit in enumerate(Z):
        if bit: o[i//8]|=1<<(i%8)
    return bytes(o)
def keccak(b,r,M,L,d,nist=True):
    bits=(bits_nist if nist else bits_native)(M,L)
    return pack_bits(sponge_bits(b,r,bits,d))
class Duplex(object):
    """reference duplex object: each call absorbs pad10*1(bits) (one block) and returns the first outlen bits"""
    def __init__(self,b,r):
        self.b,self.r,self.w=b,r,b//25
        self.S=[0]*25
    def __call__(self,bits,outlen):
        r,w=self.r,self.w
        P=list(bits)+[1]
        P+=[0]*((-len(P)-1)%r)+[1]
        assert len(P)==r
        for i,bit in enumerate(P):
            if bit: self.S[i//w]^=1<<(i%w)
        self.S=keccak_f(self.S,w)
        return pack_bits([(self.S[i//w]>>(i%w))&1 for i in range(outlen)])
def selftest():
    import hashlib
    n=0
    for ln in list(range(0,300,7))+[135,136,137,167,168,169,271,272,273]:
        m=bytes((i*7+1)&255 for i in range(ln))
        bits=bits_native(m,8*ln)
        for name,r,d in (('sha3_224',1152,224),('sha3_256',1088,256),('sha3_384',832,384),('sha3_512',576,512)):
            if pack_bits(sponge_bits(1600,r,bits+[0,1],d))!=hashlib.new(name,m).digest(): raise AssertionError(('keccak ref vs hashlib',name,ln))
            n+=1
        if pack_bits(sponge_bits(1600,1344,bits+[1,1,1,1],8*200))!=hashlib.shake_128(m).digest(200): raise AssertionError(('shake128',ln))
        if pack_bits(sponge_bits(1600,1088,bits+[1,1,1,1],8*300))!=hashlib.shake_256(m).digest(300): raise AssertionError(('shake256',ln))
        n+=2
    if round_constants(64,24)[:3]!=[1,0x8082,0x800000000000808A]: raise AssertionError('round constants')
    # KeccakTools / ShortMsgKAT style vectors: b=200 r=40 Len=43; Keccak[r=1024,c=576] Len=5 (NIST bit order)
    if keccak(200,40,bytes.fromhex('F219BD629820'),43,160).hex().upper()!='C8F9476DBF0B0FE01F80629FD5689097AAAC6732': raise AssertionError('b=200 KAT')
    return n+2
