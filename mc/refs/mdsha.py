import math, struct, hashlib
def _primes(n):
    out=[];c=2
    while len(out)<n:
        if all(c%p for p in out if p*p<=c): out.append(c)
        c+=1
    return out
def _iroot(n,k):
    lo,hi=0,1
    while hi**k<=n: hi*=2
    while lo<hi-1:
        mid=(lo+hi)//2
        if mid**k<=n: lo=mid
        else: hi=mid
    return lo
def _frac_root(p,k,bits): return _iroot(p<<(k*bits),k)&((1<<bits)-1)
P=_primes(80)
K256=[_frac_root(p,3,32) for p in P[:64]]; K512=[_frac_root(p,3,64) for p in P[:80]]
IV={ 'sha256':[_frac_root(p,2,32) for p in P[:8]], 'sha512':[_frac_root(p,2,64) for p in P[:8]],
     'sha384':[_frac_root(p,2,64) for p in P[8:16]]}
IV['sha224']=[x&0xffffffff for x in IV['sha384']]
assert K256[0]==0x428a2f98 and K512[79]==0x6c44198c4a475817 and IV['sha224'][7]==0xbefa4fa4
def rol(x,n,w): 
    n%=w; return ((x<<n)|(x>>(w-n)))&((1<<w)-1) if n else x
def ror(x,n,w): return rol(x,w-n,w)
def sha2_compress(h,blk,w):
    M=(1<<w)-1; K=K256 if w==32 else K512; N=len(K)
    W=list(struct.unpack('>16'+('L' if w==32 else 'Q'),blk))
    r=(7,18,3,17,19,10) if w==32 else (1,8,7,19,61,6)
    R=(2,13,22,6,11,25) if w==32 else (28,34,39,14,18,41)
    for t in range(16,N):
        s0=ror(W[t-15],r[0],w)^ror(W[t-15],r[1],w)^(W[t-15]>>r[2]); s1=ror(W[t-2],r[3],w)^ror(W[t-2],r[4],w)^(W[t-2]>>r[5])
        W.append((W[t-16]+s0+W[t-7]+s1)&M)
    a,b,c,d,e,f,g,hh=h
    for t in range(N):
        S1=ror(e,R[3],w)^ror(e,R[4],w)^ror(e,R[5],w); ch=(e&f)^(~e&M&g)
        t1=(hh+S1+ch+K[t]+W[t])&M
        S0=ror(a,R[0],w)^ror(a,R[1],w)^ror(a,R[2],w); mj=(a&b)^(a&c)^(b&c)
        t2=(S0+mj)&M
        hh,g,f,e,d,c,b,a=g,f,e,(d+t1)&M,c,b,a,(t1+t2)&M
    return [(x+y)&M for x,y in zip(h,(a,b,c,d,e,f,g,hh))]
def sha1_compress(h,blk,version=1):
    M=0xffffffff; W=list(struct.unpack('>16L',blk))
    for t in range(16,80): W.append(rol(W[t-3]^W[t-8]^W[t-14]^W[t-16],version,32))
    a,b,c,d,e=h
    for t in range(80):
        if t<20: f=(b&c)|(~b&M&d); k=0x5a827999
        elif t<40: f=b^c^d; k=0x6ed9eba1
        elif t<60: f=(b&c)|(b&d)|(c&d); k=0x8f1bbcdc
        else: f=b^c^d; k=0xca62c1d6
        a,b,c,d,e=(rol(a,5,32)+f+e+k+W[t])&M,a,rol(b,30,32),c,d
    return [(x+y)&M for x,y in zip(h,(a,b,c,d,e))]
T5=[int(abs(math.sin(i+1))*(1<<32))&0xffffffff for i in range(64)]
assert T5[0]==0xd76aa478 and T5[63]==0xeb86d391
def md5_compress(h,blk):
    M=0xffffffff; X=struct.unpack('<16L',blk); a,b,c,d=h
    S=[(7,12,17,22),(5,9,14,20),(4,11,16,23),(6,10,15,21)]
    for i in range(64):
        r=i//16
        if r==0: f=(b&c)|(~b&M&d); g=i
        elif r==1: f=(d&b)|(~d&M&c); g=(5*i+1)%16
        elif r==2: f=b^c^d; g=(3*i+5)%16
        else: f=c^(b|(~d&M)); g=(7*i)%16
        a,d,c,b=d,c,b,(b+rol((a+f+T5[i]+X[g])&M,S[r][i%4],32))&M
    return [(x+y)&M for x,y in zip(h,(a,b,c,d))]
def md4_compress(h,blk):
    M=0xffffffff; X=struct.unpack('<16L',blk); a,b,c,d=h
    order=[list(range(16)),[0,4,8,12,1,5,9,13,2,6,10,14,3,7,11,15],[0,8,4,12,2,10,6,14,1,9,5,13,3,11,7,15]]
    S=[(3,7,11,19),(3,5,9,13),(3,9,11,15)]; Kc=[0,0x5a827999,0x6ed9eba1]
    for r in range(3):
        for i in range(16):
            if r==0: f=(b&c)|(~b&M&d)
            elif r==1: f=(b&c)|(b&d)|(c&d)
            else: f=b^c^d
            a,d,c,b=d,c,b,rol((a+f+X[order[r][i]]+Kc[r])&M,S[r][i%4],32)
    return [(x+y)&M for x,y in zip(h,(a,b,c,d))]
IV1=[0x67452301,0xefcdab89,0x98badcfe,0x10325476,0xc3d2e1f0]
def sha512t_iv(t):
    h=[x^0xa5a5a5a5a5a5a5a5 for x in IV['sha512']]
    msg=('SHA-512/%d'%t).encode()
    return md_hash('sha512',msg,None,h0=h,raw=True)
def md_hash(alg,Mb,bitlen=None,h0=None,count0=0,raw=False):
    if bitlen is None: bitlen=8*len(Mb)
    big=alg in('sha384','sha512','sha512_224','sha512_256'); w=64 if big else 32; B=16*w; cs=2*w
    le=alg in('md4','md5')
    bits=(int.from_bytes(Mb,'big')>>(8*len(Mb)-bitlen)) if bitlen else 0
    total=count0+bitlen
    N=(B-1-cs-bitlen)%B
    v=((bits<<1)|1)<<N
    data=v.to_bytes((bitlen+1+N)//8,'big')+(total%(1<<cs)).to_bytes(cs//8,'little' if le else 'big')
    if h0 is None:
        h0={'md4':IV1[:4],'md5':IV1[:4],'sha0':IV1,'sha1':IV1,'sha224':IV['sha224'],'sha256':IV['sha256'],'sha384':IV['sha384'],'sha512':IV['sha512']}.get(alg)
        if h0 is None: h0=sha512t_iv(int(alg.split('_')[1]))
    h=list(h0)
    for o in range(0,len(data),B//8):
        blk=data[o:o+B//8]
        if alg=='md4': h=md4_compress(h,blk)
        elif alg=='md5': h=md5_compress(h,blk)
        elif alg=='sha0': h=sha1_compress(h,blk,0)
        elif alg=='sha1': h=sha1_compress(h,blk,1)
        else: h=sha2_compress(h,blk,w)
    if raw: return h
    out=b''.join(x.to_bytes(w//8,'little' if le else 'big') for x in h)
    return out[:{'sha224':28,'sha384':48,'sha512_224':28,'sha512_256':32}.get(alg,len(out))]
def selftest():
    """bind the reference to hashlib and to published vectors; raises on mismatch"""
    n=0
    for ln in range(0,300):
        m=bytes((i*7+ln)&255 for i in range(ln))
        for a in ('md5','sha1','sha224','sha256','sha384','sha512','sha512_224','sha512_256'):
            if md_hash(a,m)!=hashlib.new(a,m).digest(): raise AssertionError(('mdsha ref vs hashlib',a,ln))
            n+=1
    kat=[('md4',b'','31d6cfe0d16ae931b73c59d7e0c089c0'),('md4',b'abc','a448017aaf21d8525fc10ae87aa6729d'),
         ('md4',b'message digest','d9130a8164549fe818874806e1c7014b'),
         ('md4',b'12345678901234567890123456789012345678901234567890123456789012345678901234567890','e33b4ddc9c38f2199c3e7b164fcc0536'),
         ('sha0',b'abc','0164b8a914cd2a5e74c4f7ff082c4d97f1edf880')]
    for a,m,d in kat:
        if md_hash(a,m).hex()!=d: raise AssertionError(('mdsha ref KAT',a,m))
        n+=1
    # NIST SHAVS bit-oriented SHA-1 vectors (Len=1 Msg=00, Len=2 Msg=40)
    if md_hash('sha1',b'\x00',1).hex()!='bb6b3e18f0115b57925241676f5b1ae88747b08a': raise AssertionError('sha1 bit vector 1')
    if md_hash('sha1',b'\x40',2).hex()!='ec6b39952e1a3ec3ab3507185cf756181c84bbe2': raise AssertionError('sha1 bit vector 2')
    return n+2
