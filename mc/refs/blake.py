import hashlib
def pi_frac_bits(nbits):
    # Machin: pi = 16 atan(1/5) - 4 atan(1/239), fixed point with guard bits
    g=nbits+64; one=1<<g
    def atan_inv(x):
        s=t=one//x; x2=x*x; n=1; sign=1
        while t:
            t//=x2; n+=2; sign=-sign; s+=sign*(t//n)
        return s
    pi=16*atan_inv(5)-4*atan_inv(239)
    frac=pi-(3<<g)
    return frac>>64
_P=pi_frac_bits(1024)
C64=[(_P>>(1024-64*(i+1)))&((1<<64)-1) for i in range(16)]
C32=[(_P>>(1024-32*(i+1)))&0xffffffff for i in range(16)]
assert C64[0]==0x243F6A8885A308D3 and C32[15]==0xB5470917
SIGMA=[[0,1,2,3,4,5,6,7,8,9,10,11,12,13,14,15],[14,10,4,8,9,15,13,6,1,12,0,2,11,7,5,3],[11,8,12,0,5,2,15,13,10,14,3,6,7,1,9,4],
 [7,9,3,1,13,12,11,14,2,6,5,10,4,0,15,8],[9,0,5,7,2,4,10,15,14,1,11,12,6,8,3,13],[2,12,6,10,0,11,8,3,4,13,7,5,15,14,1,9],
 [12,5,1,15,14,13,4,10,0,7,6,3,9,2,8,11],[13,11,7,14,12,1,3,9,5,0,15,4,8,6,2,10],[6,15,14,9,11,3,0,8,12,2,13,7,1,4,10,5],[10,2,8,4,7,6,1,5,15,11,9,14,3,12,13,0]]
def _isqrt_frac(p,bits):  # fractional bits of sqrt(p)
    import math
    v=math.isqrt(p<<(2*bits)); return v&((1<<bits)-1)
PR=[2,3,5,7,11,13,17,19,23,29,31,37,41,43,47,53]
IV256=[_isqrt_frac(p,32) for p in PR[:8]]; IV512=[_isqrt_frac(p,64) for p in PR[:8]]
IV384=[_isqrt_frac(p,64) for p in PR[8:16]]; IV224=[x&0xffffffff for x in IV384]
assert IV256[0]==0x6a09e667 and IV224[0]==0xc1059ed8 and IV384[0]==0xcbbb9d5dc1059ed8
def compress(n,h,blk,t,salt):
    big=n>256; w=64 if big else 32; mask=(1<<w)-1
    c=C64 if big else C32; R=(32,25,16,11) if big else (16,12,8,7); rounds=16 if big else 14
    wb=w//8
    m=[int.from_bytes(blk[i*wb:(i+1)*wb],'big') for i in range(16)]
    t0=t&mask; t1=(t>>w)&mask
    v=list(h)+[salt[i]^c[i] for i in range(4)]+[t0^c[4],t0^c[5],t1^c[6],t1^c[7]]
    def ror(x,k): return ((x>>k)|(x<<(w-k)))&mask
    def G(r,i,a,b,cc,d):
        s=SIGMA[r%10]
        v[a]=(v[a]+v[b]+(m[s[2*i]]^c[s[2*i+1]]))&mask; v[d]=ror(v[d]^v[a],R[0])
        v[cc]=(v[cc]+v[d])&mask; v[b]=ror(v[b]^v[cc],R[1])
        v[a]=(v[a]+v[b]+(m[s[2*i+1]]^c[s[2*i]]))&mask; v[d]=ror(v[d]^v[a],R[2])
        v[cc]=(v[cc]+v[d])&mask; v[b]=ror(v[b]^v[cc],R[3])
    for r in range(rounds):
        G(r,0,0,4,8,12);G(r,1,1,5,9,13);G(r,2,2,6,10,14);G(r,3,3,7,11,15)
        G(r,4,0,5,10,15);G(r,5,1,6,11,12);G(r,6,2,7,8,13);G(r,7,3,4,9,14)
    return [h[i]^salt[i%4]^v[i]^v[i+8] for i in range(8)]
def blake(n,M,bitlen=None,salt=0,h0=None,t0=0):
    big=n>256; w=64 if big else 32; B=16*w; cs=2*w
    if bitlen is None: bitlen=8*len(M)
    bits=int.from_bytes(M,'big')>>(8*len(M)-bitlen) if bitlen else 0
    total=t0+bitlen
    # padded bit string as int
    N=(B-2-cs-bitlen)%B
    v=bits
    v=(v<<1)|1; v<<=N; v=(v<<1)|(1 if n in (256,512) else 0); v=(v<<cs)|total
    nb=bitlen+2+N+cs; assert nb%B==0
    raw=v.to_bytes(nb//8,'big')
    h=list(h0) if h0 else list({224:IV224,256:IV256,384:IV384,512:IV512}[n])
    s=[(salt>>(w*(3-i)))&((1<<w)-1) for i in range(4)]
    done=0
    for o in range(0,len(raw),B//8):
        blkbits=min(max(bitlen-done,0),B)
        done+=blkbits
        t=(t0+done) if blkbits>0 else 0
        h=compress(n,h,raw[o:o+B//8],t,s)
    out=b''.join(x.to_bytes(w//8,'big') for x in h)
    return out[:n//8]
def selftest():
    """BLAKE submission test vectors (1 zero byte; 72 / 144 zero bytes)"""
    kat=[(256,1,'0CE8D4EF4DD7CD8D62DFDED9D4EDB0A774AE6A41929A74DA23109E8F11139C87'),
         (256,72,'D419BAD32D504FB7D44D460C42C5593FE544FA4C135DEC31E21BD9ABDCC22D41'),
         (224,1,'4504CB0314FB2A4F7A692E696E487912FE3F2468FE312C73A5278EC5'),
         (224,72,'F5AA00DD1CB847E3140372AF7B5C46B4888D82C8C0A917913CFB5D04'),
         (512,1,'97961587F6D970FABA6D2478045DE6D1FABD09B61AE50932054D52BC29D31BE4FF9102B9F69E2BBDB83BE13D4B9C06091E5FA0B48BD081B634058BE0EC49BEB3'),
         (512,144,'313717D608E9CF758DCB1EB0F0C3CF9FC150B2D500FB33F51C52AFC99D358A2F1374B8A38BBA7974E7F6EF79CAB16F22CE1E649D6E01AD9589C213045D545DDE'),
         (384,1,'10281F67E135E90AE8E882251A355510A719367AD70227B137343E1BC122015C29391E8545B5272D13A7C2879DA3D807'),
         (384,144,'0B9845DD429566CDAB772BA195D271EFFE2D0211F16991D766BA749447C5CDE569780B2DAA66C4B224A2EC2E5D09174C')]
    for n,ln,d in kat:
        if blake(n,bytes(ln)).hex().upper()!=d: raise AssertionError(('blake ref KAT',n,ln))
    return len(kat)
