import struct
Q=[0x7311c2812425cfa0,0x6432286434aac8e7,0xb60450e9ef68b7c1,0xe8fb23908d9f06f1,0xdd2e76cba691e5bf,
   0x0cd0d63b2c30bc41,0x1f8ccf6823058f8a,0x54e5ed5b88e3775d,0x4ad12aae0a6d6031,0x3e7f16bb88222e0d,
   0x8af8671d3fb50c2c,0x995ad1178bd25c31,0xc878c1dd04c4b633,0x3b72066c7a1552ac,0x0d6f3522631effcb]
RS=[10,5,13,10,11,12,2,7,14,15,7,13,11,7,6,12]
LS=[11,24,9,16,15,9,27,15,6,2,29,8,15,5,31,9]
M64=(1<<64)-1
def compress(N,r):
    assert len(N)==89
    A=list(N); S=0x0123456789abcdef
    t=16*r
    for j in range(r):
        for s in range(16):
            i=89+16*j+s
            x=S^A[i-89]^A[i-17]^(A[i-18]&A[i-21])^(A[i-31]&A[i-67])
            x^=x>>RS[s]
            x^=(x<<LS[s])&M64
            A.append(x)
        S=(((S<<1)|(S>>63))&M64)^(S&0x7311c2812425cfa0)
    return A[-16:]
def md6(d,M,bitlen=None,key=b'',L=64,r=None):
    if bitlen is None: bitlen=8*len(M)
    keylen=len(key)
    if r is None:
        r=40+d//4
        if keylen: r=max(80,r)
    K=list(struct.unpack('>8Q',key.ljust(64,b'\0')))
    def V(z,p): return (r<<48)|(L<<40)|(z<<36)|(p<<20)|(keylen<<12)|d
    def blocks(data,nbits,bw):   # split nbits of data into bw-word blocks zero padded; return list of word lists and p
        bb=bw*64
        j=max(1,-(-nbits//bb))
        v=int.from_bytes(data,'big') if data else 0
        tot=8*len(data)
        v>>= (tot-nbits)            # keep first nbits
        p=j*bb-nbits
        v<<=p
        raw=v.to_bytes(j*bb//8,'big')
        return [list(struct.unpack('>%dQ'%bw,raw[i*bw*8:(i+1)*bw*8])) for i in range(j)],p
    def PAR(data,nbits,lev):
        B,p=blocks(data,nbits,64)
        j=len(B); out=[]
        for i,b in enumerate(B):
            z=1 if j==1 else 0
            pp=p if i==j-1 else 0
            N=Q+K+[(lev<<56)|i, V(z,pp)]+b
            out+=compress(N,r)
        return out
    def SEQ(data,nbits,lev):
        B,p=blocks(data,nbits,48)
        j=len(B); C=[0]*16
        for i,b in enumerate(B):
            z=1 if i==j-1 else 0
            pp=p if i==j-1 else 0
            N=Q+K+[(lev<<56)|i, V(z,pp)]+C+b
            C=compress(N,r)
        return C
    lev=0; data=M; nbits=bitlen
    while True:
        lev+=1
        if lev==L+1:
            C=SEQ(data,nbits,lev); break
        C=PAR(data,nbits,lev)
        if len(C)==16: break
        data=b''.join(struct.pack('>Q',c) for c in C); nbits=8*len(data)
    v=int.from_bytes(b''.join(struct.pack('>Q',c) for c in C),'big')&((1<<d)-1)
    nb=(d+7)//8
    return (v<<(8*nb-d)).to_bytes(nb,'big')
def selftest():
    """MD6 specification examples (reduced rounds / sequential) and published default-round digests"""
    if md6(256,b'abc',r=5).hex()!='8854c14dc284f840ed71ad7ba542855ce189633e48c797a55121a746be48cec8': raise AssertionError('md6 spec example 1')
    m=bytes.fromhex('11223344556677')*85+bytes.fromhex('1122334455')
    if md6(224,m,key=b'abcde12345',r=5).hex()!='894cf0598ad3288ed4bb5ac5df23eba0ac388a11b7ed2e3dd5ec5131': raise AssertionError('md6 spec example 2')
    m=bytes.fromhex('11223344556677')*114+b'\x11\x22'
    if md6(256,m,L=0).hex()!='4e78ab5ec8926a3db0dcfa09ed48de6c33a7399e70f01ebfc02abb52767594e2': raise AssertionError('md6 spec example 3')
    if md6(256,b'').hex()!='bca38b24a804aa37d821d31af00f5598230122c5bbfc4c4ad5ed40e4258f04ca': raise AssertionError('md6-256 empty')
    if md6(256,b'abc').hex()!='230637d4e6845cf0d092b558e87625f03881dd53a7439da34cf3b94ed0d8b2c5': raise AssertionError('md6-256 abc')
    if not md6(512,b'').hex().startswith('6b7f33821a2c060ecdd81aefddea2fd3'): raise AssertionError('md6-512 empty')
    # sensitivity: with the round count used for shape exploration every input word reaches the last 256 output bits
    base=[(i*0x9e3779b97f4a7c15)&M64 for i in range(89)]
    out=compress(base,12)
    for w in range(89):
        N=list(base); N[w]^=1
        if compress(N,12)[-4:]==out[-4:]: raise AssertionError(('md6 sensitivity at 12 rounds',w))
    return 6+89
