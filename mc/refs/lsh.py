import math
V=[1, 87, 49, 12, 176, 178, 102, 166, 121, 193, 6, 84, 249, 230, 44, 163,14, 197, 213, 181, 161, 85, 218, 80, 64, 239, 24, 226, 236, 142, 38, 200,110, 177, 104, 103, 141, 253, 255, 50, 77, 101, 81, 18, 45, 96, 31, 222,25, 107, 190, 70, 86, 237, 240, 34, 72, 242, 20, 214, 244, 227, 149, 235,97, 234, 57, 22, 60, 250, 82, 175, 208, 5, 127, 199, 111, 62, 135, 248,174, 169, 211, 58, 66, 154, 106, 195, 245, 171, 17, 187, 182, 179, 0, 243,132, 56, 148, 75, 128, 133, 158, 100, 130, 126, 91, 13, 153, 246, 216, 219,119, 68, 223, 78, 83, 88, 201, 99, 122, 11, 92, 32, 136, 114, 52, 10,138, 30, 48, 183, 156, 35, 61, 26, 143, 74, 251, 94, 129, 162, 63, 152,170, 7, 115, 167, 241, 206, 3, 150, 55, 59, 151, 220, 90, 53, 23, 131,125, 173, 15, 238, 79, 95, 89, 16, 105, 137, 225, 224, 217, 160, 37, 123,118, 73, 2, 157, 46, 116, 9, 145, 134, 228, 207, 212, 202, 215, 69, 229,27, 188, 67, 124, 168, 252, 42, 4, 29, 108, 21, 247, 19, 205, 39, 203,233, 40, 186, 147, 198, 192, 155, 33, 164, 191, 98, 204, 165, 180, 117, 76,140, 36, 210, 172, 41, 54, 159, 8, 185, 232, 113, 196, 231, 47, 146, 120,51, 65, 28, 144, 254, 221, 93, 189, 194, 139, 112, 43, 71, 109, 184, 209]
assert sorted(V)==list(range(256))
def bmap(s,i,j,k):
    h=V[s]; h=V[h^i]; h=V[h^j]; return V[h^k]
# triplets (salt, a, b) offsets back from current position: j, j-a, j-b
TRI=[(2,1,2),(3,1,3),(5,2,3),(7,2,4),(11,1,4),(13,3,4),(17,1,5),(19,2,5),(23,3,5),(29,4,5),
     (31,1,6),(37,2,6),(41,3,6),(43,4,6),(47,5,6),(53,1,7),(59,2,7),(61,3,7),(67,4,7),(71,5,7),(73,6,7)]
def swp(x): return ((x&15)<<4)|(x>>4)
def tlsh(data,buckets=128,wnd=5,chk=1,force=False):
    n=len(data)
    a=[0]*256; cs=[0]*chk
    for j in range(wnd-1,n):
        for k in range(chk):
            cs[k]=bmap(0 if k==0 else cs[k-1],data[j],data[j-1],cs[k])
        for s,x,y in TRI:
            if y>wnd-1: break
            a[bmap(s,data[j],data[j-x],data[j-y])]+=1
    if n<50 or (not force and n<256): return None
    bk=sorted(a[:buckets]); cz=buckets//4
    q1,q2,q3=bk[cz-1],bk[2*cz-1],bk[3*cz-1]
    nz=sum(1 for x in a[:buckets] if x)
    if nz<=buckets//2: return None
    code=[]
    for i in range(cz):
        h=0
        for j in range(4):
            k=a[4*i+j]
            if q3<k: h+=3<<(2*j)
            elif q2<k: h+=2<<(2*j)
            elif q1<k: h+=1<<(2*j)
        code.append(h)
    if n<=656: L=math.floor(math.log(n)/math.log(1.5))
    elif n<=3199: L=math.floor(math.log(n)/math.log(1.3)-8.72777)
    else: L=math.floor(math.log(n)/math.log(1.1)-62.5472)
    L&=255
    r1=int(q1*100/q3)%16; r2=int(q2*100/q3)%16
    return bytes([swp(c) for c in cs]+[swp(L),(r1<<4)|r2]+code[::-1])
def nilsimsa(data,target=53):
    T=[0]*256; j=0
    for i in range(256):
        j=(j*target+1)&255; j+=j
        if j>255: j-=255
        k=0
        while k<i:
            if T[k]==j: j=(j+1)&255; k=0
            k+=1
        T[i]=j
    def t3(a,b,c,n): return ((T[(a+n)&255]^T[b]*(n+n+1))+T[c^T[n]])&255
    acc=[0]*256; last=[-1]*4
    for ch in data:
        if last[1]>=0: acc[t3(ch,last[0],last[1],0)]+=1
        if last[2]>=0:
            acc[t3(ch,last[0],last[2],1)]+=1; acc[t3(ch,last[1],last[2],2)]+=1
        if last[3]>=0:
            acc[t3(ch,last[0],last[3],3)]+=1; acc[t3(ch,last[1],last[3],4)]+=1; acc[t3(ch,last[2],last[3],5)]+=1
            acc[t3(last[3],last[0],ch,6)]+=1; acc[t3(last[3],last[2],ch,7)]+=1
        last=[ch]+last[:3]
    n=len(data)
    total=0 if n<3 else 1 if n==3 else 4 if n==4 else 8*n-28
    thr=total//256
    code=[0]*32
    for i in range(256):
        if acc[i]>thr: code[i>>3]|=1<<(i&7)
    return bytes(code[::-1])
T0=b'The best documentation is the UNIX source. After all, this is what the system uses for documentation when it decides what to do next! The manuals paraphrase the source code, often having been written at different times and by different people than who wrote the code. Think of them as guidelines. Sometimes they are more like wishes... Nonetheless, it is all too common to turn to the source and find options and behaviors that are not documented in the manual. Sometimes you find options described in the manual that are unimplemented and ignored by the source.\n'
def nonzero_buckets(data,buckets=128,wnd=5):
    a=[0]*256
    for j in range(wnd-1,len(data)):
        for s,x,y in TRI:
            if y>wnd-1: break
            a[bmap(s,data[j],data[j-x],data[j-y])]+=1
    return sum(1 for x in a[:buckets] if x)
def selftest():
    if tlsh(T0).hex().upper()!='1EF02BEF718027B0160B4391212923ED7F1A463D563B1549B86CF62973B197AD2731F8': raise AssertionError('tlsh model vs official vector')
    if nilsimsa(b'abcdefgh').hex()!='14c8118000000000030800000004042004189020001308014088003280000078': raise AssertionError('nilsimsa model 1')
    if nilsimsa(b'abcdefgh',17).hex()!='001210201001000200470001180808120104800100186080000a044020020500': raise AssertionError('nilsimsa model 2')
    if nilsimsa(b'This is a much more ridiculous test because of 21347597.').hex()!='5d9c6a6b22384bcd524a8d414d82237777433fc1a07a02c3e06985d96ecdf8fb': raise AssertionError('nilsimsa model 3')
    return 4
