import struct
M64=(1<<64)-1
PI={4:(0,3,2,1),8:(2,1,4,7,6,5,0,3),16:(0,9,2,13,6,11,4,15,10,7,12,3,14,5,8,1)}
ROT={4:((14,16),(52,57),(23,40),(5,37),(25,33),(46,12),(58,22),(32,32)),
 8:((46,36,19,37),(33,27,14,42),(17,49,36,39),(44,9,54,56),(39,30,34,24),(13,50,10,17),(25,29,39,43),(8,35,56,22)),
 16:((24,13,8,47,8,17,22,37),(38,19,10,55,49,18,23,52),(33,4,51,13,34,41,59,17),(5,20,48,41,47,28,16,25),
     (41,9,37,31,12,47,44,30),(16,34,56,51,4,53,42,41),(31,44,47,46,19,42,44,25),(9,48,35,52,23,31,37,20))}
def rol(x,n): return ((x<<n)|(x>>(64-n)))&M64
def ror(x,n): return ((x>>n)|(x<<(64-n)))&M64
def _sched(key,tweak):
    Nw=len(key)//8
    k=list(struct.unpack('<%dQ'%Nw,key)); x=0x1BD11BDAA9FC1A22
    for w in k: x^=w
    k.append(x)
    t=list(struct.unpack('<2Q',tweak)); t.append(t[0]^t[1])
    Nr=80 if Nw==16 else 72
    def ks(s):
        out=[k[(s+i)%(Nw+1)] for i in range(Nw)]
        out[Nw-3]=(out[Nw-3]+t[s%3])&M64
        out[Nw-2]=(out[Nw-2]+t[(s+1)%3])&M64
        out[Nw-1]=(out[Nw-1]+s)&M64
        return out
    return Nw,Nr,ks
def tf_enc(key,tweak,block):
    Nw,Nr,ks=_sched(key,tweak)
    v=list(struct.unpack('<%dQ'%Nw,block))
    for d in range(Nr):
        if d%4==0:
            sk=ks(d//4); v=[(a+b)&M64 for a,b in zip(v,sk)]
        f=[]
        for j in range(Nw//2):
            y0=(v[2*j]+v[2*j+1])&M64
            f+=[y0, rol(v[2*j+1],ROT[Nw][d%8][j])^y0]
        v=[f[PI[Nw][i]] for i in range(Nw)]
    sk=ks(Nr//4)
    return struct.pack('<%dQ'%Nw,*[(a+b)&M64 for a,b in zip(v,sk)])
def tf_dec(key,tweak,block):
    Nw,Nr,ks=_sched(key,tweak)
    v=list(struct.unpack('<%dQ'%Nw,block))
    sk=ks(Nr//4); v=[(a-b)&M64 for a,b in zip(v,sk)]
    for d in reversed(range(Nr)):
        f=[0]*Nw
        for i in range(Nw): f[PI[Nw][i]]=v[i]
        e=[]
        for j in range(Nw//2):
            y0,y1=f[2*j],f[2*j+1]
            x1=ror(y1^y0,ROT[Nw][d%8][j]); e+=[(y0-x1)&M64,x1]
        v=e
        if d%4==0:
            sk=ks(d//4); v=[(a-b)&M64 for a,b in zip(v,sk)]
    return struct.pack('<%dQ'%Nw,*v)
def tf_block_reaching(key,tweak,s,words):
    """the plaintext block for which the state right after subkey injection number s (before round 4s) is `words`"""
    Nw,Nr,ks=_sched(key,tweak)
    assert len(words)==Nw and 0<=s<=Nr//4
    v=[(a-b)&M64 for a,b in zip(words,ks(s))]
    inv=[0]*Nw
    for i in range(Nw): inv[PI[Nw][i]]=i
    for d in reversed(range(4*s)):
        f=[0]*Nw
        for i in range(Nw): f[PI[Nw][i]]=v[i]
        e=[]
        for j in range(Nw//2):
            y0,y1=f[2*j],f[2*j+1]
            x1=ror(y1^y0,ROT[Nw][d%8][j]); e+=[(y0-x1)&M64,x1]
        v=e
        if d%4==0:
            v=[(a-b)&M64 for a,b in zip(v,ks(d//4))]
    return struct.pack('<%dQ'%Nw,*v)
def tf_state_after_injection(key,tweak,block,s):
    """forward: the state right after subkey injection number s (used to verify tf_block_reaching)"""
    Nw,Nr,ks=_sched(key,tweak)
    v=list(struct.unpack('<%dQ'%Nw,block))
    for d in range(4*s+1):
        if d%4==0:
            v=[(a+b)&M64 for a,b in zip(v,ks(d//4))]
            if d==4*s: return v
        f=[]
        for j in range(Nw//2):
            y0=(v[2*j]+v[2*j+1])&M64
            f+=[y0, rol(v[2*j+1],ROT[Nw][d%8][j])^y0]
        v=[f[PI[Nw][i]] for i in range(Nw)]
TYPES={'key':0,'cfg':4,'prs':8,'PK':12,'kdf':16,'non':20,'msg':48,'out':63}
def ubi(G,M,typ,bitlen=None,level=0,pos0=0):
    Nb=len(G)
    if bitlen is None: bitlen=8*len(M)
    nbytes=(bitlen+7)//8
    M=bytearray(M[:nbytes]); B=0
    if bitlen%8:
        B=1; k=bitlen%8
        M[-1]=(M[-1]&(0xff<<(8-k))&0xff)|(1<<(7-k))
    NM=len(M)
    nblk=max(1,-(-NM//Nb))
    M=bytes(M).ljust(nblk*Nb,b'\0')
    H=G
    for i in range(nblk):
        T=pos0+min(NM,(i+1)*Nb)
        T|=level<<112
        T|=TYPES[typ]<<120
        if i==0: T|=1<<126
        if i==nblk-1: T|=(1<<127)|(B<<119)
        m=M[i*Nb:(i+1)*Nb]
        c=tf_enc(H,T.to_bytes(16,'little'),m)
        H=bytes(a^b for a,b in zip(c,m))
    return H
def skein(Nb,No,M,bitlen=None,key=None,prs=None,PK=None,kdf=None,nonce=None,Yl=0,Yf=0,Ym=0):
    nb=Nb//8
    K=b'\0'*nb
    if key: K=ubi(K,key,'key')
    C=b'SHA3'+struct.pack('<HHQ',1,0,No)+bytes([Yl,Yf,Ym])+b'\0'*13
    G=ubi(K,C,'cfg')
    if prs: G=ubi(G,prs,'prs')
    if PK: G=ubi(G,PK,'PK')
    if kdf: G=ubi(G,kdf,'kdf')
    if nonce: G=ubi(G,nonce,'non')
    if Yl==Yf==Ym==0:
        G=ubi(G,M,'msg',bitlen)
    else:
        assert bitlen is None
        Nl=nb<<Yl; Nn=nb<<Yf
        leaves=[M[i:i+Nl] for i in range(0,len(M),Nl)] or [b'']
        Ml=b''.join(ubi(G,m,'msg',level=1,pos0=i*Nl) for i,m in enumerate(leaves))
        l=1
        while len(Ml)>nb:
            l+=1
            if l==Ym:
                Ml=ubi(G,Ml,'msg',level=Ym); break
            nodes=[Ml[i:i+Nn] for i in range(0,len(Ml),Nn)]
            Ml=b''.join(ubi(G,m,'msg',level=l,pos0=i*Nn) for i,m in enumerate(nodes))
        G=Ml
    nout=(No+7)//8; out=b''; i=0
    while len(out)<nout:
        out+=ubi(G,struct.pack('<Q',i),'out'); i+=1
    return out[:nout]
def selftest():
    """Threefish / Skein 1.3 specification vectors"""
    h=bytes.fromhex
    if not (tf_enc(h('00'*32),h('00'*16),h('00'*32)).hex()=='84da2a1f8beaee947066ae3e3103f1ad536db1f4a1192495116b9f3ce6133fd8'): raise AssertionError("tf_enc(h('00'*32),h('00'*16),h('00'*32)).hex()=='84da")
    k=h('101112131415161718191a1b1c1d1e1f202122232425262728292a2b2c2d2e2f'); t=h('000102030405060708090a0b0c0d0e0f'); m=h('fffefdfcfbfaf9f8f7f6f5f4f3f2f1f0efeeedecebeae9e8e7e6e5e4e3e2e1e0')
    c=tf_enc(k,t,m); assert c.hex()=='e0d091ff0eea8fdfc98192e62ed80ad59d865d08588df476657056b5955e97df'; assert tf_dec(k,t,c)==m
    if not (tf_enc(h('00'*128),h('00'*16),h('00'*128)).hex().startswith('f05c3d0a3d05b304')): raise AssertionError("tf_enc(h('00'*128),h('00'*16),h('00'*128)).hex().star")
    if not (tf_enc(h('00'*64),h('00'*16),h('00'*64)).hex().startswith('b1a2bbc6ef6025bc')): raise AssertionError("tf_enc(h('00'*64),h('00'*16),h('00'*64)).hex().starts")
    if not (skein(256,256,h('FF')).hex().upper()=='0B98DCD198EA0E50A7A244C444E25C23DA30C10FC9A1F270A6637F1F34E67ED2'): raise AssertionError("skein(256,256,h('FF')).hex().upper()=='0B98DCD198EA0E")
    if not (skein(256,256,b'').hex().upper()=='C8877087DA56E072870DAA843F176E9453115929094C3A40C463A196C29BF7BA'): raise AssertionError("skein(256,256,b'').hex().upper()=='C8877087DA56E07287")
    if not (skein(512,512,h('FF')).hex().upper().startswith('71B7BCE6FE645222')): raise AssertionError("skein(512,512,h('FF')).hex().upper().startswith('71B7")
    if not (skein(1024,1024,h('FF')).hex().upper().startswith('E62C05802EA01524')): raise AssertionError("skein(1024,1024,h('FF')).hex().upper().startswith('E6")
    if not (skein(256,256,h('00'),bitlen=1).hex().upper()=='52D2B5FFC2966C06BA7BB0CC2BABBC935E99146487FB361A239830D4D688C988'): raise AssertionError("skein(256,256,h('00'),bitlen=1).hex().upper()=='52D2B")
    if not (skein(256,256,h('00'*33),bitlen=257).hex().upper()=='3EAEA996FAD95B6032654D6CA93AC3450BED8C754CD8000460A2876E34E52FA7'): raise AssertionError("skein(256,256,h('00'*33),bitlen=257).hex().upper()=='")
    if not (skein(256,256,b'',key=h('CB41F1706CDE09651203C2D0EFBADDF8')).hex().upper()=='886E4EFEFC15F06AA298963971D7A25398FFFE5681C84DB39BD00851F64AE29D'): raise AssertionError("skein(256,256,b'',key=h('CB41F1706CDE09651203C2D0EFBA")
    M=h("000102010401060108010A010C010E01100112011401160118011A011C011E01200122012401260128012A012C012E01300132013401360138013A013C013E01400142014401460148014A014C014E01500152015401560158015A015C015E01600162016401660168016A016C016E01700172017401760178017A017C01")
    if not (skein(256,256,M,Yl=2,Yf=2,Ym=2).hex().upper()=='E3CF8FCDD20BFE85D175448007226C20FF22A65DC9DF7588BE305E5CCC3F4941'): raise AssertionError("skein(256,256,M,Yl=2,Yf=2,Ym=2).hex().upper()=='E3CF8")

    # Skein 1.3 reference implementation (skein_golden_kat / Threefish) vectors with incrementing key, tweak, counting-down plaintext
    inc=lambda a,n: bytes(range(a,a+n))
    dec_=lambda n: bytes(range(255,255-n,-1))
    for n,c in ((64,"e304439626d45a2cb401cad8d636249a6338330eb06d45dd8b36b90e97254779272a0a8d99463504784420ea18c9a725af11dffea10162348927673d5c1caf3d"),
                (128,"a6654ddbd73cc3b05dd777105aa849bce49372eaaffc5568d254771bab85531c94f780e7ffaae430d5d8af8c70eebbe1760f3b42b737a89cb363490d670314bd8aa41ee63c2e1f45fbd477922f8360b388d6125ea6c7af0ad7056d01796e90c83313f4150a5716b30ed5f569288ae974ce2b4347926fce57de44512177dd7cde")):
        if tf_enc(inc(0x10,n),inc(0,16),dec_(n)).hex()!=c or tf_dec(inc(0x10,n),inc(0,16),h(c))!=dec_(n): raise AssertionError('threefish-%d vector'%(8*n))
    if tf_enc(h('00'*64),h('00'*16),h('00'*64)).hex()!="b1a2bbc6ef6025bc40eb3822161f36e375d1bb0aee3186fbd19e47c5d479947b7bc2f8586e35f0cff7e7f03084b0b7b1f1ab3961a580a3e97eb41ea14a6d7bbe": raise AssertionError('tf512 zero')
    return 16
