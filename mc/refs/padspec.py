"""specification model of the padding schemes, on Python ints / bit counts.
A bit string of length L is the int whose binary expansion (L digits) lists the bits
in stream order (first bit = most significant bit of the first byte)."""


def stream_bits(M, L):
    return (int.from_bytes(M, 'big') >> (8 * len(M) - L)) if L else 0


def to_bytes(v, nbits):
    """bit string -> bytes, the last partial byte zero-filled"""
    pad = (-nbits) % 8
    return (v << pad).to_bytes((nbits + pad) // 8, 'big') if nbits else b''


def pad_spec(scheme, B, M, L=None, w=32, hsize=256, count0=0):
    """returns (padded bytes, number of pad bits before any length field, total pad bits).
    count0: bits consumed before this message (length fields encode count0+L)."""
    if L is None:
        L = 8 * len(M)
    v = stream_bits(M, L)
    cs = 2 * w
    if scheme == 'none':
        return to_bytes(v, L), 0, 0
    if scheme == 'zero':
        q = (-L) % B
        return to_bytes(v << q, L + q), q, q
    if scheme == 'iso7816':
        q = B - (L % B)
        return to_bytes(((v << 1) | 1) << (q - 1), L + q), q, q
    if scheme in ('pkcs7', 'x923'):
        assert L % 8 == 0 and B // 8 < 256
        blen = B // 8
        q = blen - ((L // 8) % blen)
        tail = bytes([q]) * q if scheme == 'pkcs7' else b'\0' * (q - 1) + bytes([q])
        return to_bytes(v, L) + tail, 8 * q, 8 * q
    total = (count0 + L) % (1 << cs)
    if scheme in ('md', 'sha'):
        N = (B - 1 - cs - L) % B
        body = to_bytes(((v << 1) | 1) << N, L + 1 + N)
        return body + total.to_bytes(cs // 8, 'little' if scheme == 'md' else 'big'), 1 + N, 1 + N + cs
    if scheme == 'blake':
        N = (B - 2 - cs - L) % B
        fb = 1 if hsize in (256, 512) else 0
        body = to_bytes(((((v << 1) | 1) << N) << 1) | fb, L + 2 + N)
        return body + total.to_bytes(cs // 8, 'big'), 2 + N, 2 + N + cs
    raise ValueError(scheme)


def expected_blocks(scheme, B, M, L=None, **kw):
    """list of (block bytes, bit counter the block must be reported with)"""
    if L is None:
        L = 8 * len(M)
    data, _, _ = pad_spec(scheme, B, M, L, **kw)
    blen = B // 8
    out = []
    nb = max(1, (len(data) + blen - 1) // blen)
    for i in range(nb):
        blk = data[i * blen:(i + 1) * blen]
        cnt = min(L, (i + 1) * B) if i * B < L else 0
        out.append((blk, cnt))
    return out


def valid_pkcs7(c, blen):
    q = c[-1]
    return 1 <= q <= blen and q <= len(c) and c[-q:] == bytes([q]) * q


def valid_x923(c, blen):
    q = c[-1]
    return 1 <= q <= blen and q <= len(c) and c[-q:-1] == b'\0' * (q - 1)
