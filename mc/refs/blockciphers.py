"""Reference AES (FIPS 197, S-box computed algebraically) and DES/TDEA (FIPS 46-3, tables
typed from the standard, 1-based as printed there) on Python ints/bytes.  Imports nothing
from crysp.  Bound to OpenSSL through the KAT files under /verif/kats (selftest)."""
import json, os

# ----------------------------------------------------------------------------- AES


def gf_mul(a, b):
    """carry-less multiplication modulo x^8+x^4+x^3+x+1"""
    r = 0
    while b:
        if b & 1:
            r ^= a
        a <<= 1
        if a & 0x100:
            a ^= 0x11b
        b >>= 1
    return r


def _gf_inv(a):
    if a == 0:
        return 0
    r = 1
    for _ in range(254):        # a^254 = a^-1
        r = gf_mul(r, a)
    return r


def _sbox():
    sb = []
    for x in range(256):
        b = _gf_inv(x)
        y = 0
        for i in range(8):
            bit = ((b >> i) ^ (b >> ((i + 4) % 8)) ^ (b >> ((i + 5) % 8)) ^ (b >> ((i + 6) % 8)) ^ (b >> ((i + 7) % 8)) ^ (0x63 >> i)) & 1
            y |= bit << i
        sb.append(y)
    return sb


SBOX = _sbox()
SBOX_INV = [0] * 256
for _i, _v in enumerate(SBOX):
    SBOX_INV[_v] = _i
assert SBOX[0] == 0x63 and SBOX[0x53] == 0xed and sorted(SBOX) == list(range(256))


def aes_expand(key):
    nk = len(key) // 4
    assert nk in (4, 6, 8) and len(key) == 4 * nk
    nr = nk + 6
    w = [list(key[4 * i:4 * i + 4]) for i in range(nk)]
    rc = 1
    for i in range(nk, 4 * (nr + 1)):
        t = list(w[i - 1])
        if i % nk == 0:
            t = [SBOX[t[1]] ^ rc, SBOX[t[2]], SBOX[t[3]], SBOX[t[0]]]
            rc = gf_mul(rc, 2)
        elif nk > 6 and i % nk == 4:
            t = [SBOX[x] for x in t]
        w.append([a ^ b for a, b in zip(w[i - nk], t)])
    return [sum(w[4 * r:4 * r + 4], []) for r in range(nr + 1)], nr


def shift_rows(s):
    return [s[(4 * ((c + r) % 4)) + r] for c in range(4) for r in range(4)]


def inv_shift_rows(s):
    return [s[(4 * ((c - r) % 4)) + r] for c in range(4) for r in range(4)]


def mix_columns(s, inv=False):
    m = (14, 11, 13, 9) if inv else (2, 3, 1, 1)
    out = []
    for c in range(4):
        col = s[4 * c:4 * c + 4]
        for r in range(4):
            out.append(gf_mul(col[0], m[(0 - r) % 4]) ^ gf_mul(col[1], m[(1 - r) % 4]) ^
                       gf_mul(col[2], m[(2 - r) % 4]) ^ gf_mul(col[3], m[(3 - r) % 4]))
    return out


def aes_enc(key, blk):
    assert len(blk) == 16
    rk, nr = aes_expand(key)
    s = [a ^ b for a, b in zip(blk, rk[0])]
    for r in range(1, nr + 1):
        s = shift_rows([SBOX[x] for x in s])
        if r < nr:
            s = mix_columns(s)
        s = [a ^ b for a, b in zip(s, rk[r])]
    return bytes(s)


def aes_dec(key, blk):
    assert len(blk) == 16
    rk, nr = aes_expand(key)
    s = [a ^ b for a, b in zip(blk, rk[nr])]
    for r in range(nr - 1, -1, -1):
        s = [SBOX_INV[x] for x in inv_shift_rows(s)]
        s = [a ^ b for a, b in zip(s, rk[r])]
        if r > 0:
            s = mix_columns(s, inv=True)
    return bytes(s)


# ----------------------------------------------------------------------------- DES

IP_T = [58, 50, 42, 34, 26, 18, 10, 2, 60, 52, 44, 36, 28, 20, 12, 4, 62, 54, 46, 38, 30, 22, 14, 6, 64, 56, 48, 40, 32, 24, 16, 8,
        57, 49, 41, 33, 25, 17, 9, 1, 59, 51, 43, 35, 27, 19, 11, 3, 61, 53, 45, 37, 29, 21, 13, 5, 63, 55, 47, 39, 31, 23, 15, 7]
FP_T = [40, 8, 48, 16, 56, 24, 64, 32, 39, 7, 47, 15, 55, 23, 63, 31, 38, 6, 46, 14, 54, 22, 62, 30, 37, 5, 45, 13, 53, 21, 61, 29,
        36, 4, 44, 12, 52, 20, 60, 28, 35, 3, 43, 11, 51, 19, 59, 27, 34, 2, 42, 10, 50, 18, 58, 26, 33, 1, 41, 9, 49, 17, 57, 25]
E_T = [32, 1, 2, 3, 4, 5, 4, 5, 6, 7, 8, 9, 8, 9, 10, 11, 12, 13, 12, 13, 14, 15, 16, 17,
       16, 17, 18, 19, 20, 21, 20, 21, 22, 23, 24, 25, 24, 25, 26, 27, 28, 29, 28, 29, 30, 31, 32, 1]
P_T = [16, 7, 20, 21, 29, 12, 28, 17, 1, 15, 23, 26, 5, 18, 31, 10, 2, 8, 24, 14, 32, 27, 3, 9, 19, 13, 30, 6, 22, 11, 4, 25]
PC1_T = [57, 49, 41, 33, 25, 17, 9, 1, 58, 50, 42, 34, 26, 18, 10, 2, 59, 51, 43, 35, 27, 19, 11, 3, 60, 52, 44, 36,
         63, 55, 47, 39, 31, 23, 15, 7, 62, 54, 46, 38, 30, 22, 14, 6, 61, 53, 45, 37, 29, 21, 13, 5, 28, 20, 12, 4]
PC2_T = [14, 17, 11, 24, 1, 5, 3, 28, 15, 6, 21, 10, 23, 19, 12, 4, 26, 8, 16, 7, 27, 20, 13, 2,
         41, 52, 31, 37, 47, 55, 30, 40, 51, 45, 33, 48, 44, 49, 39, 56, 34, 53, 46, 42, 50, 36, 29, 32]
SHIFTS = [1, 1, 2, 2, 2, 2, 2, 2, 1, 2, 2, 2, 2, 2, 2, 1]
SB = [
 [14, 4, 13, 1, 2, 15, 11, 8, 3, 10, 6, 12, 5, 9, 0, 7, 0, 15, 7, 4, 14, 2, 13, 1, 10, 6, 12, 11, 9, 5, 3, 8,
  4, 1, 14, 8, 13, 6, 2, 11, 15, 12, 9, 7, 3, 10, 5, 0, 15, 12, 8, 2, 4, 9, 1, 7, 5, 11, 3, 14, 10, 0, 6, 13],
 [15, 1, 8, 14, 6, 11, 3, 4, 9, 7, 2, 13, 12, 0, 5, 10, 3, 13, 4, 7, 15, 2, 8, 14, 12, 0, 1, 10, 6, 9, 11, 5,
  0, 14, 7, 11, 10, 4, 13, 1, 5, 8, 12, 6, 9, 3, 2, 15, 13, 8, 10, 1, 3, 15, 4, 2, 11, 6, 7, 12, 0, 5, 14, 9],
 [10, 0, 9, 14, 6, 3, 15, 5, 1, 13, 12, 7, 11, 4, 2, 8, 13, 7, 0, 9, 3, 4, 6, 10, 2, 8, 5, 14, 12, 11, 15, 1,
  13, 6, 4, 9, 8, 15, 3, 0, 11, 1, 2, 12, 5, 10, 14, 7, 1, 10, 13, 0, 6, 9, 8, 7, 4, 15, 14, 3, 11, 5, 2, 12],
 [7, 13, 14, 3, 0, 6, 9, 10, 1, 2, 8, 5, 11, 12, 4, 15, 13, 8, 11, 5, 6, 15, 0, 3, 4, 7, 2, 12, 1, 10, 14, 9,
  10, 6, 9, 0, 12, 11, 7, 13, 15, 1, 3, 14, 5, 2, 8, 4, 3, 15, 0, 6, 10, 1, 13, 8, 9, 4, 5, 11, 12, 7, 2, 14],
 [2, 12, 4, 1, 7, 10, 11, 6, 8, 5, 3, 15, 13, 0, 14, 9, 14, 11, 2, 12, 4, 7, 13, 1, 5, 0, 15, 10, 3, 9, 8, 6,
  4, 2, 1, 11, 10, 13, 7, 8, 15, 9, 12, 5, 6, 3, 0, 14, 11, 8, 12, 7, 1, 14, 2, 13, 6, 15, 0, 9, 10, 4, 5, 3],
 [12, 1, 10, 15, 9, 2, 6, 8, 0, 13, 3, 4, 14, 7, 5, 11, 10, 15, 4, 2, 7, 12, 9, 5, 6, 1, 13, 14, 0, 11, 3, 8,
  9, 14, 15, 5, 2, 8, 12, 3, 7, 0, 4, 10, 1, 13, 11, 6, 4, 3, 2, 12, 9, 5, 15, 10, 11, 14, 1, 7, 6, 0, 8, 13],
 [4, 11, 2, 14, 15, 0, 8, 13, 3, 12, 9, 7, 5, 10, 6, 1, 13, 0, 11, 7, 4, 9, 1, 10, 14, 3, 5, 12, 2, 15, 8, 6,
  1, 4, 11, 13, 12, 3, 7, 14, 10, 15, 6, 8, 0, 5, 9, 2, 6, 11, 13, 8, 1, 4, 10, 7, 9, 5, 0, 15, 14, 2, 3, 12],
 [13, 2, 8, 4, 6, 15, 11, 1, 10, 9, 3, 14, 5, 0, 12, 7, 1, 15, 13, 8, 10, 3, 7, 4, 12, 5, 6, 11, 0, 14, 9, 2,
  7, 11, 4, 1, 9, 12, 14, 2, 0, 6, 10, 13, 15, 3, 5, 8, 2, 1, 14, 7, 4, 10, 8, 13, 15, 12, 9, 0, 3, 5, 6, 11]]


def _perm(v, nin, table):
    """bit 1 = most significant bit of the nin-bit int v (FIPS numbering)"""
    r = 0
    for t in table:
        r = (r << 1) | ((v >> (nin - t)) & 1)
    return r


def des_subkeys(key):
    k = _perm(int.from_bytes(key, 'big'), 64, PC1_T)
    c, d = k >> 28, k & 0xfffffff
    ks = []
    for s in SHIFTS:
        c = ((c << s) | (c >> (28 - s))) & 0xfffffff
        d = ((d << s) | (d >> (28 - s))) & 0xfffffff
        ks.append(_perm((c << 28) | d, 56, PC2_T))
    return ks


def des_f(r, k):
    x = _perm(r, 32, E_T) ^ k
    out = 0
    for n in range(8):
        six = (x >> (42 - 6 * n)) & 0x3f
        row = ((six >> 5) << 1) | (six & 1)
        col = (six >> 1) & 0xf
        out = (out << 4) | SB[n][16 * row + col]
    return _perm(out, 32, P_T)


def des_crypt(key, blk, dec=False):
    assert len(key) == 8 and len(blk) == 8
    ks = des_subkeys(key)
    if dec:
        ks = ks[::-1]
    v = _perm(int.from_bytes(blk, 'big'), 64, IP_T)
    l, r = v >> 32, v & 0xffffffff
    for k in ks:
        l, r = r, l ^ des_f(r, k)
    return _perm((r << 32) | l, 64, FP_T).to_bytes(8, 'big')


def des_block_reaching(key, rnd, L, R):
    """the plaintext block whose state after `rnd` rounds (1..16) is (L, R)"""
    ks = des_subkeys(key)
    l, r = L, R
    for i in range(rnd - 1, -1, -1):
        l, r = r ^ des_f(l, ks[i]), l
    return _perm((l << 32) | r, 64, FP_T).to_bytes(8, 'big')


def des_keys_with_equal_round_keys(i=0, j=15):
    """all 64-bit keys (parity bits 0) whose round keys i and j (0-based) are equal: the equalities of PC2-selected
    register bits form equivalence classes of register positions; every assignment of the classes is a solution
    (256 keys for (0,15), among them the 4 weak keys)"""
    def rot(r):
        return sum(SHIFTS[:r + 1]) % 28
    keys = []
    halves = []
    for half in (0, 1):
        parent = list(range(28))

        def find(a):
            while parent[a] != a:
                a = parent[a]
            return a
        for t in PC2_T:
            p = t - 1
            if (p < 28) != (half == 0):
                continue
            p %= 28
            a, b = (p + rot(i)) % 28, (p + rot(j)) % 28      # register position (before rotation) feeding output p
            parent[find(a)] = find(b)
        classes = sorted({find(a) for a in range(28)})
        sols = []
        for m in range(1 << len(classes)):
            v = 0
            for pos in range(28):
                if (m >> classes.index(find(pos))) & 1:
                    v |= 1 << (27 - pos)
            sols.append(v)
        halves.append(sols)
    for c in halves[0]:
        for d in halves[1]:
            cd = (c << 28) | d
            k = 0
            for idx, t in enumerate(PC1_T):
                if (cd >> (55 - idx)) & 1:
                    k |= 1 << (64 - t)
            keys.append(k.to_bytes(8, 'big'))
    return keys


def des_enc(key, blk):
    return des_crypt(key, blk)


def des_dec(key, blk):
    return des_crypt(key, blk, True)


def tdea_enc(k1, k2, k3, blk):
    return des_enc(k3, des_dec(k2, des_enc(k1, blk)))


def tdea_dec(k1, k2, k3, blk):
    return des_dec(k1, des_enc(k2, des_dec(k3, blk)))


# ----------------------------------------------------------------------------- binding to OpenSSL

KATDIR = os.path.join(os.path.dirname(os.path.dirname(os.path.dirname(os.path.abspath(__file__)))), 'kats')


def selftest(full=False):
    n = 0
    # FIPS 197 appendix C
    pt = bytes.fromhex('00112233445566778899aabbccddeeff')
    for nk, ct in ((16, '69c4e0d86a7b0430d8cdb78070b4c55a'), (24, 'dda97ca4864cdfe06eaf70a0ec0d7191'), (32, '8ea2b7ca516745bfeafc49904b496089')):
        k = bytes(range(nk))
        if aes_enc(k, pt).hex() != ct or aes_dec(k, bytes.fromhex(ct)) != pt:
            raise AssertionError('AES reference vs FIPS 197 C.%d' % nk)
        n += 1
    kat = json.load(open(os.path.join(KATDIR, 'blockciphers.json')))
    for e in kat['vectors']:
        key = bytes.fromhex(e['key'])
        pts = bytes.fromhex(e['pt'])
        cts = bytes.fromhex(e['ct'])
        alg = e['alg']
        bs = 16 if alg.startswith('aes') else 8
        step = bs if full else 9 * bs
        for i in range((len(e['key']) % 9) * bs if not full else 0, len(pts), step):
            p, c = pts[i:i + bs], cts[i:i + bs]
            if alg.startswith('aes'):
                ok = aes_enc(key, p) == c and aes_dec(key, c) == p
            elif alg == 'des-ecb':
                ok = des_enc(key, p) == c and des_dec(key, c) == p
            elif alg == 'des-ede':
                ok = tdea_enc(key[:8], key[8:], key[:8], p) == c and tdea_dec(key[:8], key[8:], key[:8], c) == p
            else:
                ok = tdea_enc(key[:8], key[8:16], key[16:], p) == c and tdea_dec(key[:8], key[8:16], key[16:], c) == p
            if not ok:
                raise AssertionError('reference %s disagrees with the OpenSSL KAT (key %s block %d)' % (alg, e['key'], i // bs))
            n += 1
    return n
