#!/venv/bin/python
"""For every 'fix:' commit of /repo: build the reverse patch, apply it to a scratch worktree of HEAD,
run the suite (must stay green: the defect was invisible to the tests) and the check(s) of the
property recorded for that commit in known_findings.json.  Writes mutants/revert_report.txt."""
import subprocess, json, os, sys
kf = json.load(open('/verif/known_findings.json'))['findings']
bycommit = {}
for f in kf:
    if f.get('status') == 'fixed':
        bycommit.setdefault(f['commit'], set()).add(f['property'])
log = subprocess.check_output(['git', '-C', '/repo', 'log', '--format=%h %s'], text=True).strip().split('\n')
rep = []
os.makedirs('/verif/mutants/reverts', exist_ok=True)
only = sys.argv[1:]
for line in log:
    h, msg = line.split(' ', 1)
    if not msg.startswith('fix:'):
        continue
    if only and h not in only:
        continue
    props = sorted(bycommit.get(h, []))
    patch = '/verif/mutants/reverts/%s.diff' % h
    d = subprocess.check_output(['git', '-C', '/repo', 'diff', h, h + '~1', '--', 'crysp'], text=True)
    open(patch, 'w').write(d)
    r = subprocess.run(['/verif/tools/mutant.py', patch, '--props', ','.join(props) if props else 'C01'], capture_output=True, text=True)
    tail = [l for l in r.stdout.split('\n') if l.startswith(('suite', 'DETECTED', 'PATCH'))]
    rep.append('%s %-12s %s || %s' % (h, ','.join(props), ' | '.join(tail), msg[:90]))
    print(rep[-1], flush=True)
open('/verif/mutants/revert_report.txt', 'w').write('\n'.join(rep) + '\n')
