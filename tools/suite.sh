#!/bin/bash
# run the pinned suite of /repo (guard off); prints the pass/fail summary line
cd ${1:-/repo} && env -u BDCHT_CRYSP_VERIF /venv/bin/python -m pytest -q -p no:cacheprovider --timeout=900 --continue-on-collection-errors -x 2>&1 | tail -3
