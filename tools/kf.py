#!/venv/bin/python
"""kf.py fixed <PROP> <class_key> <what>   -- record the HEAD commit of /repo as the fix
   kf.py known <PROP> <class_key> <what>"""
import json, sys, subprocess
p = '/verif/known_findings.json'
d = json.load(open(p))
kind, prop, ck, what = sys.argv[1:5]
if kind == 'fixed':
    c = subprocess.check_output(['git', '-C', '/repo', 'log', '--format=%h', '-1'], text=True).strip()
    e = {'property': prop, 'status': 'fixed', 'commit': c, 'class_key': ck, 'what': 'fixed: property=%s %s %s' % (prop, c, what)}
else:
    e = {'property': prop, 'status': 'known', 'class_key': ck, 'what': what}
d['findings'] = [f for f in d['findings'] if not (f['property'] == prop and f['class_key'] == ck)] + [e]
s = json.dumps(d, indent=1)
open(p, 'w').write(s + '\n')
print(e['what'])
