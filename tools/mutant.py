#!/venv/bin/python
"""mutant.py <patch.diff> [--props C01,C05] [--tier quick] [--keep]
Apply a patch to a scratch worktree of /repo (outside /repo and /verif), run the pinned suite there
(must stay green for a 'realistic' mutant) and the given checks with CRYSP_TREE pointing at it.
Prints one line per check; exit 0 if at least one check reported a VIOLATION, 1 otherwise.
The scratch worktree is removed afterwards."""
import os, sys, subprocess, argparse, tempfile, shutil, json, re

ap = argparse.ArgumentParser()
ap.add_argument('patch')
ap.add_argument('--props', default=None)
ap.add_argument('--tier', default='quick')
ap.add_argument('--reverse', action='store_true')
ap.add_argument('--nosuite', action='store_true')
a = ap.parse_args()
ALL = ['C%02d' % i for i in range(1, 21)]
props = a.props.split(',') if a.props else ALL
d = tempfile.mkdtemp(prefix='crysp-mut-', dir='/var/tmp')
os.rmdir(d)
try:
    subprocess.check_call(['git', '-C', '/repo', 'worktree', 'add', '-q', '--detach', d, 'HEAD'])
    r = subprocess.run(['git', '-C', d, 'apply'] + (['-R'] if a.reverse else []) + [os.path.abspath(a.patch)], capture_output=True, text=True)
    if r.returncode:
        print('PATCH-DOES-NOT-APPLY', r.stderr[:300])
        sys.exit(3)
    env = dict(os.environ, PYTHONPATH=d, PYTHONDONTWRITEBYTECODE='1')
    env.pop('BDCHT_CRYSP_VERIF', None)
    if not a.nosuite:
        t = subprocess.run(['/venv/bin/python', '-m', 'pytest', '-q', '-p', 'no:cacheprovider', '--timeout=900', 'tests'], cwd=d, env=env, capture_output=True, text=True)
        last = t.stdout.strip().split('\n')[-1]
        w = subprocess.run(['/venv/bin/python', '-c', 'import crysp;print(crysp.__file__)'], cwd=d, env=env, capture_output=True, text=True).stdout.strip()
        print('suite:', last, '| crysp from', w)
    hit = []
    for p in props:
        env2 = dict(os.environ, CRYSP_TREE=d)
        c = subprocess.run(['/venv/bin/python', '/verif/run.py', p, '--tier', a.tier], env=env2, capture_output=True, text=True)
        v = [l for l in c.stdout.split('\n') if l.startswith('VIOLATION')]
        ie = [l for l in c.stdout.split('\n') if l.startswith('INTERNAL')]
        print('%s exit=%d violations=%d%s %s' % (p, c.returncode, len(v), ' INTERNAL-ERROR' if ie else '', (v[0][:230] if v else (ie[0][:300] if ie else ''))))
        if v:
            hit.append(p)
    print('DETECTED-BY', ','.join(hit) if hit else 'NONE')
    sys.exit(0 if hit else 1)
finally:
    subprocess.run(['git', '-C', '/repo', 'worktree', 'remove', '--force', d], capture_output=True)
    shutil.rmtree(d, ignore_errors=True)
    shutil.rmtree(os.path.join('/verif/replays-alt', os.path.basename(d)), ignore_errors=True)
    subprocess.run(['git', '-C', '/repo', 'worktree', 'prune'], capture_output=True)
