#!/venv/bin/python
"""Development-time generator of the known-answer files under /verif/kats from the OpenSSL 3.0
CLI of this image (legacy provider for des-ecb, rc4, md4).  The committed files are what the
checks use; this script is not needed at check time."""
import subprocess, json, os, hashlib, sys
HERE = os.path.dirname(os.path.dirname(os.path.abspath(__file__)))


def ossl(alg, key, data, iv=None, dec=False):
    cmd = ['openssl', 'enc', '-' + alg, '-K', key.hex(), '-nopad', '-provider', 'legacy', '-provider', 'default']
    if iv is not None:
        cmd += ['-iv', iv.hex()]
    if dec:
        cmd.append('-d')
    r = subprocess.run(cmd, input=data, capture_output=True)
    assert r.returncode == 0, r.stderr
    return r.stdout


def exp(n, tag):
    return hashlib.shake_256(b'crysp-kat' + tag.encode()).digest(n)


def blocks(bs):
    b = [b'\0' * bs, b'\xff' * bs] + [(1 << i).to_bytes(bs, 'big') for i in range(0, 8 * bs, 3 if bs == 16 else 1)]
    b += [exp(bs, 'blk%d' % j) for j in range(40)] + [bytes([v]) * bs for v in range(0, 256, 17)]
    return b''.join(b)


vec = []
for nk in (16, 24, 32):
    keys = [bytes(nk), b'\xff' * nk, bytes(range(nk))] + [exp(nk, 'aes%d' % j) for j in range(6)] + \
           [(1 << i).to_bytes(nk, 'big') for i in range(0, 8 * nk, 13)]
    for k in keys:
        pt = blocks(16)
        vec.append({'alg': 'aes-%d-ecb' % (8 * nk), 'key': k.hex(), 'pt': pt.hex(), 'ct': ossl('aes-%d-ecb' % (8 * nk), k, pt).hex()})
dkeys = [bytes(8), b'\xff' * 8] + [(1 << i).to_bytes(8, 'big') for i in range(64)] + [exp(8, 'des%d' % j) for j in range(24)] + \
        [bytes.fromhex(h) for h in ('0101010101010101', 'fefefefefefefefe', 'e0e0e0e0f1f1f1f1', '1f1f1f1f0e0e0e0e', '01fe01fe01fe01fe', 'fe01fe01fe01fe01',
                                    '1fe01fe00ef10ef1', 'e01fe01ff10ef10e', '01e001e001f101f1', 'e001e001f101f101', '1ffe1ffe0efe0efe', 'fe1ffe1ffe0efe0e',
                                    '011f011f010e010e', '1f011f010e010e01', 'e0fee0fef1fef1fe', 'fee0fee0fef1fef1')]
for k in dkeys:
    pt = blocks(8)
    vec.append({'alg': 'des-ecb', 'key': k.hex(), 'pt': pt.hex(), 'ct': ossl('des-ecb', k, pt).hex()})
for j in range(6):
    k = exp(16, 'ede%d' % j)
    pt = blocks(8)[:8 * 40]
    vec.append({'alg': 'des-ede', 'key': k.hex(), 'pt': pt.hex(), 'ct': ossl('des-ede', k, pt).hex()})
    k = exp(24, 'ede3%d' % j)
    vec.append({'alg': 'des-ede3', 'key': k.hex(), 'pt': pt.hex(), 'ct': ossl('des-ede3', k, pt).hex()})
json.dump({'source': subprocess.check_output(['openssl', 'version'], text=True).strip(), 'vectors': vec},
          open(os.path.join(HERE, 'kats', 'blockciphers.json'), 'w'))

st = []
for kl in (16,):
    for j in range(4):
        k = exp(kl, 'rc4%d' % j)
        st.append({'alg': 'rc4', 'key': k.hex(), 'n': 600, 'ks': ossl('rc4', k, bytes(600)).hex()})
for j in range(3):
    k = exp(5, 'rc440%d' % j)
    st.append({'alg': 'rc4-40', 'key': k.hex(), 'n': 300, 'ks': ossl('rc4-40', k, bytes(300)).hex()})
for j in range(3):
    k = exp(32, 'cc%d' % j)
    nonce = exp(8, 'ccn%d' % j)
    for ctr in (0, 1, (1 << 32) - 2, (1 << 32) - 1, 1 << 32):
        iv = (ctr & 0xffffffff).to_bytes(4, 'little') + (ctr >> 32).to_bytes(4, 'little') + nonce
        # OpenSSL chacha20: iv = 32-bit LE counter || 96-bit nonce; a 64-bit counter layout is the same 16 bytes
        st.append({'alg': 'chacha20', 'key': k.hex(), 'nonce': nonce.hex(), 'counter': ctr, 'n': 256,
                   'ks': ossl('chacha20', k, bytes(256), iv=iv).hex()})
md4 = []
for n in list(range(0, 130)) + [191, 192, 193, 255, 256, 257]:
    m = exp(n, 'md4')
    r = subprocess.run(['openssl', 'dgst', '-md4', '-provider', 'legacy', '-provider', 'default', '-binary'], input=m, capture_output=True)
    assert r.returncode == 0, r.stderr
    md4.append({'n': n, 'digest': r.stdout.hex()})
json.dump({'source': subprocess.check_output(['openssl', 'version'], text=True).strip(), 'streams': st, 'md4': md4, 'md4_tag': 'crysp-kat' + 'md4'},
          open(os.path.join(HERE, 'kats', 'streams.json'), 'w'))
print(len(vec), 'block vectors', len(st), 'stream vectors', len(md4), 'md4 digests')
