#!/opt/veriftools/pyvenv/bin/python
"""development-time search (numpy, tooling venv): 8-byte messages whose single MD5 / MD4 compression yields a new
chaining word equal to one of the OLD chaining words at another position (2^-32 per ordered pair of positions).
Writes kats/chain_coincidences.json; every entry is re-verified with hashlib / the reference at run time."""
import numpy as np, json, sys, os, math
U = np.uint32
np.seterr(over='ignore')
IV = [0x67452301, 0xefcdab89, 0x98badcfe, 0x10325476]


def rol(x, n):
    return (x << U(n)) | (x >> U(32 - n))


def md5_block(words):
    a, b, c, d = [np.full(words[0].shape, v, dtype=U) for v in IV]
    S = [7, 12, 17, 22] * 4 + [5, 9, 14, 20] * 4 + [4, 11, 16, 23] * 4 + [6, 10, 15, 21] * 4
    K = [int(abs(math.sin(i + 1)) * 2 ** 32) & 0xffffffff for i in range(64)]
    for i in range(64):
        if i < 16:
            f = (b & c) | (~b & d); g = i
        elif i < 32:
            f = (d & b) | (~d & c); g = (5 * i + 1) % 16
        elif i < 48:
            f = b ^ c ^ d; g = (3 * i + 5) % 16
        else:
            f = c ^ (b | ~d); g = (7 * i) % 16
        f = f + a + U(K[i]) + words[g]
        a, d, c = d, c, b
        b = b + rol(f, S[i])
    return [a + U(IV[0]), b + U(IV[1]), c + U(IV[2]), d + U(IV[3])]


def md4_block(words):
    a, b, c, d = [np.full(words[0].shape, v, dtype=U) for v in IV]
    def r1(a, b, c, d, k, s): return rol(a + ((b & c) | (~b & d)) + words[k], s)
    def r2(a, b, c, d, k, s): return rol(a + ((b & c) | (b & d) | (c & d)) + words[k] + U(0x5a827999), s)
    def r3(a, b, c, d, k, s): return rol(a + (b ^ c ^ d) + words[k] + U(0x6ed9eba1), s)
    for k in range(0, 16, 4):
        a = r1(a, b, c, d, k, 3); d = r1(d, a, b, c, k + 1, 7); c = r1(c, d, a, b, k + 2, 11); b = r1(b, c, d, a, k + 3, 19)
    for k in range(4):
        a = r2(a, b, c, d, k, 3); d = r2(d, a, b, c, k + 4, 5); c = r2(c, d, a, b, k + 8, 9); b = r2(b, c, d, a, k + 12, 13)
    for k in (0, 2, 1, 3):
        a = r3(a, b, c, d, k, 3); d = r3(d, a, b, c, k + 8, 9); c = r3(c, d, a, b, k + 4, 11); b = r3(b, c, d, a, k + 12, 15)
    return [a + U(IV[0]), b + U(IV[1]), c + U(IV[2]), d + U(IV[3])]


IV_SHA1 = [0x67452301, 0xefcdab89, 0x98badcfe, 0x10325476, 0xc3d2e1f0]
IV_SHA256 = [0x6a09e667, 0xbb67ae85, 0x3c6ef372, 0xa54ff53a, 0x510e527f, 0x9b05688c, 0x1f83d9ab, 0x5be0cd19]
K256 = [0x428a2f98, 0x71374491, 0xb5c0fbcf, 0xe9b5dba5, 0x3956c25b, 0x59f111f1, 0x923f82a4, 0xab1c5ed5, 0xd807aa98, 0x12835b01, 0x243185be, 0x550c7dc3, 0x72be5d74, 0x80deb1fe, 0x9bdc06a7, 0xc19bf174,
        0xe49b69c1, 0xefbe4786, 0x0fc19dc6, 0x240ca1cc, 0x2de92c6f, 0x4a7484aa, 0x5cb0a9dc, 0x76f988da, 0x983e5152, 0xa831c66d, 0xb00327c8, 0xbf597fc7, 0xc6e00bf3, 0xd5a79147, 0x06ca6351, 0x14292967,
        0x27b70a85, 0x2e1b2138, 0x4d2c6dfc, 0x53380d13, 0x650a7354, 0x766a0abb, 0x81c2c92e, 0x92722c85, 0xa2bfe8a1, 0xa81a664b, 0xc24b8b70, 0xc76c51a3, 0xd192e819, 0xd6990624, 0xf40e3585, 0x106aa070,
        0x19a4c116, 0x1e376c08, 0x2748774c, 0x34b0bcb5, 0x391c0cb3, 0x4ed8aa4a, 0x5b9cca4f, 0x682e6ff3, 0x748f82ee, 0x78a5636f, 0x84c87814, 0x8cc70208, 0x90befffa, 0xa4506ceb, 0xbef9a3f7, 0xc67178f2]


def ror(x, n):
    return (x >> U(n)) | (x << U(32 - n))


def sha1_block(w16):
    w = list(w16)
    for t in range(16, 80):
        w.append(rol(w[t - 3] ^ w[t - 8] ^ w[t - 14] ^ w[t - 16], 1))
    a, b, c, d, e = [np.full(w[0].shape, v, dtype=U) for v in IV_SHA1]
    for t in range(80):
        if t < 20:
            f = (b & c) | (~b & d); k = 0x5a827999
        elif t < 40:
            f = b ^ c ^ d; k = 0x6ed9eba1
        elif t < 60:
            f = (b & c) | (b & d) | (c & d); k = 0x8f1bbcdc
        else:
            f = b ^ c ^ d; k = 0xca62c1d6
        tmp = rol(a, 5) + f + e + U(k) + w[t]
        e, d, c, b, a = d, c, rol(b, 30), a, tmp
    return [x + U(v) for x, v in zip((a, b, c, d, e), IV_SHA1)]


def sha256_block(w16):
    w = list(w16)
    for t in range(16, 64):
        s0 = ror(w[t - 15], 7) ^ ror(w[t - 15], 18) ^ (w[t - 15] >> U(3))
        s1 = ror(w[t - 2], 17) ^ ror(w[t - 2], 19) ^ (w[t - 2] >> U(10))
        w.append(w[t - 16] + s0 + w[t - 7] + s1)
    a, b, c, d, e, f, g, h = [np.full(w[0].shape, v, dtype=U) for v in IV_SHA256]
    for t in range(64):
        S1 = ror(e, 6) ^ ror(e, 11) ^ ror(e, 25)
        ch = (e & f) ^ (~e & g)
        t1 = h + S1 + ch + U(K256[t]) + w[t]
        S0 = ror(a, 2) ^ ror(a, 13) ^ ror(a, 22)
        mj = (a & b) ^ (a & c) ^ (b & c)
        t2 = S0 + mj
        h, g, f, e, d, c, b, a = g, f, e, d + t1, c, b, a, t1 + t2
    return [x + U(v) for x, v in zip((a, b, c, d, e, f, g, h), IV_SHA256)]


def search_be(alg, start, chunks, chunk=1 << 20):
    """SHA-1 / SHA-256: 8-byte message = big-endian counter, big-endian words, length field 64"""
    f, iv = (sha1_block, IV_SHA1) if alg == 'sha1' else (sha256_block, IV_SHA256)
    hits = []
    for ci in range(chunks):
        n0 = start + ci * chunk
        cnt = np.arange(n0, n0 + chunk, dtype=np.uint64)
        z = np.zeros(chunk, dtype=U)
        words = [(cnt >> np.uint64(32)).astype(U), (cnt & np.uint64(0xffffffff)).astype(U), np.full(chunk, 0x80000000, dtype=U)] + [z] * 12 + [np.full(chunk, 64, dtype=U)]
        new = f(words)
        for i in range(len(iv)):
            for j in range(len(iv)):
                if i != j:
                    for idx in np.nonzero(new[i] == U(iv[j]))[0]:
                        hits.append({'alg': alg, 'message': int(n0 + idx).to_bytes(8, 'big').hex(), 'new_word': i, 'equals_old_word': j})
        if ci % 16 == 0:
            print(alg, 'searched', n0 + chunk, 'hits', len(hits), flush=True)
    return hits


def search(alg, start, chunks, chunk=1 << 20):
    if alg in ('sha1', 'sha256'):
        return search_be(alg, start, chunks, chunk)
    f = md5_block if alg == 'md5' else md4_block
    hits = []
    for ci in range(chunks):
        n0 = start + ci * chunk
        cnt = np.arange(n0, n0 + chunk, dtype=np.uint64)
        z = np.zeros(chunk, dtype=U)
        words = [(cnt & np.uint64(0xffffffff)).astype(U), (cnt >> np.uint64(32)).astype(U), np.full(chunk, 0x80, dtype=U)] + [z] * 11 + [np.full(chunk, 64, dtype=U), z]
        new = f(words)
        for i in range(4):
            for j in range(4):
                if i != j:
                    for idx in np.nonzero(new[i] == U(IV[j]))[0]:
                        hits.append({'alg': alg, 'message': int(n0 + idx).to_bytes(8, 'little').hex(), 'new_word': i, 'equals_old_word': j})
        if ci % 16 == 0:
            print(alg, 'searched', n0 + chunk, 'hits', len(hits), flush=True)
    return hits


if __name__ == '__main__':
    alg, part, nparts = sys.argv[1], int(sys.argv[2]), int(sys.argv[3])
    total = (1 << 11) if alg in ('md5', 'md4') else (1 << 10)     # chunks of 2^20 -> 2^31 (2^30) messages over all parts
    per = total // nparts
    h = search(alg, part * per << 20, per)
    json.dump(h, open('/var/tmp/work/cc_%s_%d.json' % (alg, part), 'w'))
    print('done', len(h))
