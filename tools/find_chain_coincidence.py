#!/opt/veriftools/pyvenv/bin/python
"""development-time search (numpy, tooling venv): 8-byte messages whose single MD5 / MD4 compression yields a new
chaining word equal to one of the OLD chaining words at another position (2^-32 per ordered pair of positions).
Writes kats/chain_coincidences.json; every entry is re-verified with hashlib / the reference at run time."""
import numpy as np, json, sys, os, math
U = np.uint32
np.seterr(over='ignore')
IV = [0x67452301, 0xefcdab89, 0x98badcfe, 0x10325476]


def rol(x, n):
    return (x << U(n)) | (x >> U(32 - n))


def md5_block(words):
    a, b, c, d = [np.full(words[0].shape, v, dtype=U) for v in IV]
    S = [7, 12, 17, 22] * 4 + [5, 9, 14, 20] * 4 + [4, 11, 16, 23] * 4 + [6, 10, 15, 21] * 4
    K = [int(abs(math.sin(i + 1)) * 2 ** 32) & 0xffffffff for i in range(64)]
    for i in range(64):
        if i < 16:
            f = (b & c) | (~b & d); g = i
        elif i < 32:
            f = (d & b) | (~d & c); g = (5 * i + 1) % 16
        elif i < 48:
            f = b ^ c ^ d; g = (3 * i + 5) % 16
        else:
            f = c ^ (b | ~d); g = (7 * i) % 16
        f = f + a + U(K[i]) + words[g]
        a, d, c = d, c, b
        b = b + rol(f, S[i])
    return [a + U(IV[0]), b + U(IV[1]), c + U(IV[2]), d + U(IV[3])]


def md4_block(words):
    a, b, c, d = [np.full(words[0].shape, v, dtype=U) for v in IV]
    def r1(a, b, c, d, k, s): return rol(a + ((b & c) | (~b & d)) + words[k], s)
    def r2(a, b, c, d, k, s): return rol(a + ((b & c) | (b & d) | (c & d)) + words[k] + U(0x5a827999), s)
    def r3(a, b, c, d, k, s): return rol(a + (b ^ c ^ d) + words[k] + U(0x6ed9eba1), s)
    for k in range(0, 16, 4):
        a = r1(a, b, c, d, k, 3); d = r1(d, a, b, c, k + 1, 7); c = r1(c, d, a, b, k + 2, 11); b = r1(b, c, d, a, k + 3, 19)
    for k in range(4):
        a = r2(a, b, c, d, k, 3); d = r2(d, a, b, c, k + 4, 5); c = r2(c, d, a, b, k + 8, 9); b = r2(b, c, d, a, k + 12, 13)
    for k in (0, 2, 1, 3):
        a = r3(a, b, c, d, k, 3); d = r3(d, a, b, c, k + 8, 9); c = r3(c, d, a, b, k + 4, 11); b = r3(b, c, d, a, k + 12, 15)
    return [a + U(IV[0]), b + U(IV[1]), c + U(IV[2]), d + U(IV[3])]


def search(alg, start, chunks, chunk=1 << 20):
    f = md5_block if alg == 'md5' else md4_block
    hits = []
    for ci in range(chunks):
        n0 = start + ci * chunk
        cnt = np.arange(n0, n0 + chunk, dtype=np.uint64)
        z = np.zeros(chunk, dtype=U)
        words = [(cnt & np.uint64(0xffffffff)).astype(U), (cnt >> np.uint64(32)).astype(U), np.full(chunk, 0x80, dtype=U)] + [z] * 11 + [np.full(chunk, 64, dtype=U), z]
        new = f(words)
        for i in range(4):
            for j in range(4):
                if i != j:
                    for idx in np.nonzero(new[i] == U(IV[j]))[0]:
                        hits.append({'alg': alg, 'message': int(n0 + idx).to_bytes(8, 'little').hex(), 'new_word': i, 'equals_old_word': j})
        if ci % 16 == 0:
            print(alg, 'searched', n0 + chunk, 'hits', len(hits), flush=True)
    return hits


if __name__ == '__main__':
    alg, part, nparts = sys.argv[1], int(sys.argv[2]), int(sys.argv[3])
    total = 1 << 11      # chunks of 2^20 -> 2^31 messages over all parts
    per = total // nparts
    h = search(alg, part * per << 20, per)
    json.dump(h, open('/var/tmp/work/cc_%s_%d.json' % (alg, part), 'w'))
    print('done', len(h))
