#!/venv/bin/python
"""setup: nothing to build (pure Python).  Verifies that the interpreter, the tree under
test and the reference self-tests are usable offline."""
import os, sys, subprocess
HERE = os.path.dirname(os.path.dirname(os.path.abspath(__file__)))
sys.path.insert(0, HERE)
from mc import engine
engine.bind_tree()
import crysp
print('setup ok: python', sys.version.split()[0], 'crysp from', os.path.dirname(crysp.__file__))
os.makedirs(os.path.join(HERE, 'evidence'), exist_ok=True)
