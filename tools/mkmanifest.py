#!/venv/bin/python
"""regenerate /verif/MANIFEST.json from the table below and validate it against the schema"""
import json, os, subprocess, sys
HERE = os.path.dirname(os.path.dirname(os.path.abspath(__file__)))

CHECKS = {
 'C08': dict(sec='2/C08', tech='exhaustive enumeration of all operand pairs / index expressions up to a width bound (engine D) + explicit-state BFS to fixpoint over mutation histories on a real Bits object (engine H), against a (size,value) integer model',
             text='Every operator of Bits is executed on every vector / ordered pair of vectors up to width 6 (thorough 8), every index expression on widths <=5 (6), and every mutation history on one live vector is explored breadth-first to its fixpoint; each result is compared with an independent (n,x) integer model, operands and aliases are re-read after every call.',
             note='Trusted: the 40-line integer model in mc/checks/c08.py. Widths above the bound are covered only at the word-boundary alphabet (subcheck wide, not exhaustive).'),

 'C01': dict(sec='2/C01', tech='exhaustive enumeration of every bit length / byte length / container shape up to a block bound (engine P) and of preset counter states on live objects (engine H), against an independent bit-granular reference bound to hashlib',
             text='Every bit length 1..2B+cs+16 (3 data patterns), every byte length 0..4 blocks, longer containers, over-long bit lengths and preset length counters beyond one word are executed on the real hash objects of all 10 algorithms and compared with hashlib / a bit-granular reference whose constants are derived, not copied.',
             note='Trusted: hashlib (OpenSSL) and mc/refs/mdsha.py (self-tested against hashlib on 2400 messages and published MD4/SHA-0/bit-oriented vectors at the start of each run). Data values outside the fixed patterns and lengths beyond the bound are not covered.'),
 'C07': dict(sec='2/C07', tech='exhaustive enumeration of all vectors up to width 11/16 and all byte strings up to 2 bytes under every bit order (engine D), every byte length 1..40 (engine P), against an integer model',
             text='All constructors, all conversions out and all round trips are executed for every (size,value) up to width 11 (thorough 16), every byte string of length <=2 under bitorder -1/+1/0/2, every byte length 1..40 under every dividing group size, and compared with an independent integer model of the documented bit orders.',
             note='Trusted: the integer model in mc/checks/c07.py (model_load, 12 lines). Larger widths are covered only on the boundary-value alphabet the property itself names.'),

 'C09': dict(sec='2/C09', tech='exhaustive enumeration of scheme x block size x length residue x bit length (engine P), complete malformed-padding domains for small blocks (engine D), explicit-state BFS over iterblocks call histories on one pad object (engine H), against a padding specification model on integers',
             text='Every scheme is run on every block size 8..1024 (step 8), every length residue class over 0..3 blocks and every L mod 8; each yielded block and the counters read right after it are compared with a specification model; remove() is applied to the result; PKCS#7/X9.23 remove is run on complete small-block domains; all call histories (continuations, final, refused requests, calls after the pad) to depth 3/4 are explored on live pad objects.',
             note='Trusted: mc/refs/padspec.py (60 lines, integers only). Not judged: empty message under none/zero padding, bit lengths on byte-granular schemes, padcnt of the length-strengthening schemes.'),
 'C16': dict(sec='2/C16', tech='exhaustive enumeration of all vector pairs over Z/2^k for small k and dimension (engine D) + BFS to fixpoint over assignment histories on a live Poly (engine H), against a list-of-ints model',
             text='Every ordered pair of vectors over Z/2, Z/4, Z/8 up to dimension 4/3/2 (thorough 6/4/3 and dim-4 over Z/8 against all short vectors) is run through + - ^ & | //, every vector through neg, shifts and every index/slice/list read and write, the integer ring on a signed alphabet, split/pack on 5-8 element sizes; assignment histories on a live Poly are explored to the fixpoint.',
             note='Trusted: Python list arithmetic in mc/checks/c16.py. Out-of-range slices, int-valued slice assignment and pack(poly, big-endian) are not judged (ambiguous in the statement).'),

 'C15': dict(sec='2/C15', tech='exhaustive enumeration of all byte strings up to 2 bytes and all width-8 polynomials (engine D); bounded enumeration of widths, lengths, positions and targets (engine P) against zlib and bit-by-bit division',
             text='crc32 is run on every byte string of length 0..2 and 6 patterns at every length to 64/128 against zlib; the table-driven CRC on every width-8 reflected polynomial x every byte x init/final, and on every width 8..64 with 4-7 polynomials against bit-by-bit division; the fixing functions on every position and a 38-word target alphabet, verified with zlib; the backward computation at every position.',
             note='Trusted: zlib.crc32 and a 6-line bitwise reference. Targets and polynomials above width 8 are a fixed alphabet, not all 2^32 / 2^N values.'),
 'C20': dict(sec='2/C20', tech='exhaustive enumeration of all small lists / multisets / item lists (engine D) against itertools and brute force; explicit-state BFS over call histories on the loaded knapsack module (engine H)',
             text='permutk on every list over {0,1,2} up to length 4/6 and range(n) to 6/8 for every k; nextperm on every permutation and every multiset arrangement; combink for n<=6/7; exactsum/dynprog on every item list up to length 4/6 over weights {1,2,3,5} and every target, validated by brute force (sub-multiset, sum, minimality, failure iff impossible); all call histories to depth 3/4 on one module instance compared with a freshly loaded module.',
             note='Trusted: itertools and a brute-force subset enumeration. permutk is judged after exhaustion only; exactsum target 0 not judged.'),

 'C02': dict(sec='2/C02', tech='complete component domains (engine D: all 65536 gmul pairs, all S-box cells, all permutation tables on every single-bit input) + enumerated variable-key / variable-text / variable-tweak families (engine P) against independent references bound to OpenSSL/NESSIE/Skein vectors',
             text='Every exposed component table is exhausted; for each of the 9 cipher configurations the single-bit key family, 254 repeated-byte keys, patterns and DES weak/semi-weak/parity keys x 3 blocks, 3 keys x the block family and the tweak family are encrypted and decrypted by the real objects and compared with reference ciphers; every Serpent key length, every TDEA keying form, and 80 undefined key/tweak/block sizes (must raise).',
             note='Trusted: mc/refs/blockciphers.py (AES algebraic, DES tables) validated against 2300 OpenSSL-generated blocks per run (20687 in the committed file), mc/refs/serpent.py (NESSIE), mc/refs/skein.py (Skein 1.3 vectors). Not all 2^|K| keys: families plus complete component domains.'),
 'C03': dict(sec='2/C03', tech='complete domains of every exposed component pair (engine D) + enumerated key/block/tweak families (engine P); purely differential oracle f_inv(f(x)) == x == f(f_inv(x))',
             text='dec(enc(B))==B and enc(dec(B))==B with exact block length over the same key/block/tweak families as C02 for all 9 cipher configurations, and every exposed inverse pair (AES Sbox, ShiftRows, MixColumns; DES IP; Serpent S-boxes, IP/FP, L; rol/ror for every width<=10/12, amount and value; Salsa/ChaCha index maps) on its complete or stated domain. No reference model is involved.',
             note='Trusted: nothing but the harness. MixColumns is exhausted on single- and two-active-byte states (it is linear), the linear layers on the single-bit family (linear) plus patterns.'),

 'C05': dict(sec='2/C05', tech='exhaustive enumeration of mode x padding x cipher x message length x IV/counter alphabets (engine P) against SP 800-38A written generically over the same block function and the C09 padding specification',
             text='ECB/CBC under 5 paddings, CTR with byte and object counters (counter halves at 0,1,2^h-2,2^h-1 and a byte-distinct value) and both CTS modes are run over a stub block cipher of 8 block sizes with every length 0..4 blocks+1, and over all 9 real cipher configurations; outputs equal the generic SP 800-38A model byte for byte, every ciphertext is decrypted by a fresh equally configured object, AES vectors of SP 800-38A appendix F are replayed.',
             note='Trusted: mc/checks/c05.py sp800_* (10 lines) and mc/refs/padspec.py; the block function itself is taken from the object under test (cipher correctness is C02). CTS variant is not fixed by the statement: length and round trip only.'),
 'C06': dict(sec='2/C06', tech='exhaustive enumeration of cipher x key size x rounds x length alphabets and single-bit key/nonce families (engine P); preset block counters through the guarded hook; explicit-state BFS over RC4 call histories with (S,i,j) as state (engine H); reference stream ciphers bound to spec/OpenSSL vectors',
             text='Salsa20 and ChaCha for both key sizes, every even round count 2..20, 11 lengths around the 64-byte block boundaries (enc, length, dec, prefix property for every ordered pair), single-bit key and nonce families, the Salsa20 core on the 512-bit single-bit family; keystream started at blocks around 2^32, 2^33, 2^48 and 2^64-2 through the hook; RC4 for every key length 1..256, and every sequence of up to 3 enc/keystream/dec calls on one object compared with the reference stream and state.',
             note='Trusted: mc/refs/stream.py (validated each run against spec examples, RFC 6229 and OpenSSL ChaCha20/RC4 keystreams incl. a counter crossing 2^32). Hook BDCHT_CRYSP_VERIF (commit 942588d, add-only).'),
 'C18': dict(sec='2/C18', tech='enumeration of generated table networks (one program per key of an enumerated key family) each validated on an enumerated block family against reference DES (engine P)',
             text='For 37 (thorough 106) keys - single-bit keys incl. parity bits, weak and semi-weak keys, parity-only variants, patterns - the tables are generated by the real code, checked structurally (16x12 total byte maps, M1/M2/M3 index ranges, key independence and repeatability) and evaluated through WhiteDES.enc on the single-bit block family and patterns against reference DES and the library DES.',
             note='Trusted: reference DES bound to OpenSSL. Keys and blocks are families, not all 2^64.'),

 'C11': dict(sec='2/C11', tech='exhaustive enumeration of bit lengths, byte lengths, salts, containers, BLAKE2 lengths and the full product of a BLAKE2 parameter alphabet (engine P); preset counter states on live objects (engine H); reference BLAKE with derived constants, hashlib for BLAKE2',
             text='BLAKE-224/256/384/512 on every bit length 0..2B+cs+18, every byte length to 4 blocks, 6 salts x 3 container shapes around every boundary, preset counters crossing 2^w and 2^(w+1); BLAKE2s/2b on every byte length 0..4 blocks+1, every outlen, salt/personalization, and the full product of a 4x3x3x3x3x3 tree-parameter alphabet on 2 messages against hashlib; module-level singletons.',
             note='Trusted: hashlib.blake2b/2s, mc/refs/blake.py (bound to the 8 submission vectors per run). BLAKE2 keys and short salts are not exercised.'),
 'C13': dict(sec='2/C13', tech='exhaustive enumeration of hash x key length 0..3 blocks x message (engine P) + explicit-state BFS over setkey/MAC histories on one HMAC object (engine H) against Python hmac / RFC 2104 over reference hashes',
             text='13 hashes x every key length 0..3 blocks (quick: 17 boundary lengths) x 2 key patterns x 4 messages against hmac+hashlib (MD4 and BLAKE: RFC 2104 written out over the reference hash); all setkey/MAC histories to depth 3/4 on one object: every MAC equals that of the last key set.',
             note='Trusted: Python hmac/hashlib, mc/refs/mdsha.py, mc/refs/blake.py.'),
 'C14': dict(sec='2/C14', tech='explicit-state BFS over all update histories (all compositions into block-aligned pieces incl. empty pieces, then a closing piece) on real hash objects, states deduplicated by (chaining value, bit counter, pad flag); confluence and reference-digest oracles (engine H); exhaustive cut positions for Nilsimsa (engine D)',
             text='For 16 hashes and messages of 0..3/4 blocks plus 5 tail classes every history feed(0..3 blocks)* close is explored on a live object; after each piece the state must equal that of a fresh object fed the same prefix in one piece and the bit counter must equal the bits fed; every closing digest must equal the reference digest. Nilsimsa: every 1- and 2-cut of every message of length 0..12/16.',
             note='Trusted: hashlib / reference hashes for the final digest. Known finding (recorded, not repaired): BLAKE2 closing with an empty final piece after whole blocks.'),

 'C04': dict(sec='2/C04', tech='exhaustive enumeration of width x rate x bit order x bit length x output length x container shape (engine P) and explicit-state BFS over duplex call sequences (engine H) against a bit-level reference sponge bound to hashlib',
             text='All 7 widths; every rate 1..b-1 for b<=50 (thorough b<=200) and named rates incl. non-byte rates for the larger widths; both bit orders; every bit length 0..2r+2 (or every residue class near the rate boundaries over 0..2 blocks); 7 output lengths incl. several squeezes; longer containers and bitlen=0; SHA3-224..512 and SHAKE128/256 on every byte length to 2 rate blocks against hashlib; module singletons; all duplex call sequences to depth 3 on 4 (7) geometries with the 25 lanes as state.',
             note='Trusted: hashlib SHA-3/SHAKE and mc/refs/keccak.py (derived round constants / rho offsets, bound to hashlib and a b=200 vector each run).'),

 'C12': dict(sec='2/C12', tech='exhaustive enumeration of state size x bit length x output length x argument subsets x tree shapes (engine P) and preset UBI tweak positions (engine H) against an independent Threefish/UBI/Skein reference bound to the specification vectors',
             text='Skein-256/512/1024: every bit length 0..2Nb+9 (256; thorough also 512, 1024 to Nb+137) with and without explicit bitlen and with longer containers; every output length multiple of 8 up to 4Nb; key in 5 classes x all 16 subsets of prs/PK/kdf/nonce; all 27 tree shapes x 8 message sizes incl. empty and the Ym cap; UBI started at positions around 2^32, 2^64 and 2^95.',
             note='Trusted: mc/refs/skein.py (16 spec vectors per run). Tree hashing with a bit length not exercised; No not a multiple of 8: byte count only.'),
 'C17': dict(sec='2/C17', tech='exhaustive enumeration of digest size x mode x key length x message shape x bit length x round count alphabets (engine P) against an independent MD6 reference bound to the specification examples',
             text='Every d in 1..512 (quick every 5th) in tree and sequential mode; L in {0,1,2,3,64} x 5 key lengths x 27 message lengths covering 1 to 65 leaves and every 512/384 residue boundary; every L\' mod 8 at one-, two- and three-level sizes with longer containers; default and explicit round counts. Shapes run at 12 rounds, where every input word provably reaches the digest (self-tested on the reference).',
             note='Trusted: mc/refs/md6.py (3 spec examples + 3 published digests + sensitivity self-test per run).'),

 'C10': dict(sec='2/C10', tech='explicit-state BFS over call histories on real objects (engine H): per object kind a menu of one-shot and perturbation events, states deduplicated by the canonical form of object + sibling, history-independence oracle against a fresh equally configured object, library-globals invariant after every transition',
             text='48 object kinds incl. the module-level singletons; every history of up to 3 (thorough 5) calls - valid one-shot calls, calls with per-call options, calls that raise, unfinished updates, duplex, suspended keystream generators, calls on a sibling instance with other constructor arguments, direct use of a shared inner hash - is executed on a live object; every judged call must return exactly what it returns on a fresh object; module/class-level state must equal its import-time snapshot. Failing histories are minimised and classified by (kind, judged event, culprit set).',
             note='Trusted: nothing beyond the harness (purely differential). Perturbation events are not judged; HMAC.setkey and RC4 stream state are out of scope here (C13, C06).'),
 'C19': dict(sec='2/C19', tech='exhaustive enumeration of all 30 TLSH configurations x length x content x force alphabets, all digest pairs per configuration, all 256 Nilsimsa targets (engine P) against paper/reference models bound to the official vectors',
             text='Every TLSH configuration on 12/16 lengths (around the window size, 50 and 256 byte gates and the length-bucket formula changes) x 7 contents x force: None or a digest of exactly the configured length equal to the model; from_hash on produced, zero, all-ones and single-bit digests; all ordered digest pairs in 6 call forms (bytes/object): non-negative, symmetric, form-independent, zero on identical, equal to the model score; Nilsimsa for every target and every length 0..39, distances = Hamming.',
             note='Trusted: mc/refs/lsh.py (official TLSH and Nilsimsa vectors per run). The 48-bucket gate with 18..24 non-empty buckets is only judged for type.'),
}

PENDING = {}


def main():
    props = [json.loads(l) for l in open(os.path.join(HERE, 'properties.jsonl'))]
    checks = []
    na = []
    for p in props:
        i = p['id']
        if i in CHECKS:
            c = CHECKS[i]
            checks.append({
                'property_id': i,
                'quick_cmd': '/venv/bin/python /verif/run.py %s --tier quick' % i,
                'thorough_cmd': '/venv/bin/python /verif/run.py %s --tier thorough' % i,
                'evidence_file': '/verif/evidence/%s.json' % i,
                'replay_cmd_template': '/venv/bin/python /verif/run.py %s --replay {path}' % i,
                'engine': 'mc',
                'level_claimed': {'category': 'model_checking', 'text': c['text'], 'design_ref': 'DESIGN.md section ' + c['sec']},
                'level_note': c['note'],
                'technique': c['tech'],
            })
        else:
            na.append({'property_id': i, 'reason': PENDING.get(i, 'check not built yet in this session (planned in DESIGN.md section 2; bounded exhaustive exploration applies)')})
    hooks = json.load(open(os.path.join(HERE, 'tools', 'hooks.json')))
    m = {
        'version': 1,
        'setup_cmd': '/venv/bin/python /verif/tools/setup_check.py',
        'hooks': hooks,
        'engines': [{'name': 'mc', 'path': '/verif/mc/engine.py', 'serves_properties': sorted(CHECKS),
                     'kind_free_text': 'own explicit-state / product-space explorer driving the real Python code of /repo (engines P, H, D of DESIGN.md section 1); reference models under /verif/mc/refs'}],
        'checks': checks,
        'notes': 'All checks: /verif/run.py <ID> --tier quick|thorough; CRYSP_TREE selects the tree (default /repo). Known findings: /verif/known_findings.json.',
        'not_applicable': na,
    }
    json.dump(m, open(os.path.join(HERE, 'MANIFEST.json'), 'w'), indent=1)
    r = subprocess.run(['/opt/veriftools/pyvenv/bin/python', '-c',
                        'import json,jsonschema;jsonschema.validate(json.load(open("%s/MANIFEST.json")),json.load(open("/root/.vp/MANIFEST.schema.json")));print("MANIFEST valid")' % HERE])
    sys.exit(r.returncode)


if __name__ == '__main__':
    main()
