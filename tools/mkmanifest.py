#!/venv/bin/python
"""regenerate /verif/MANIFEST.json from the table below and validate it against the schema"""
import json, os, subprocess, sys
HERE = os.path.dirname(os.path.dirname(os.path.abspath(__file__)))

CHECKS = {
 'C01': dict(sec='2/C01, 8', tech='bounded exhaustive enumeration of message bit/byte lengths, container shapes and preset counter states, executed on the real hash objects (product-space explorer, engine P/H) against an independent bit-granular reference bound to hashlib',
   text='All 10 algorithms: every bit length 1..2B+cs+16 (quick: +-9 around every boundary), every byte length to 4 blocks, 5..129-block messages, longer containers, over-long bit lengths (must raise), the same calls on an object that already hashed another message, live objects whose chaining value and bit counter are preset so that the length field carries into every bit 11..2w, bit lengths ending inside the last byte of 1025-block (thorough: > 1 MiB) messages, and every algorithm after each of 23 other configurations was used first in a fresh process. Each result is compared with hashlib or a reference whose constants are derived, not copied.',
   note='Trusted: hashlib (OpenSSL) and mc/refs/mdsha.py (self-tested each run against hashlib on 2400 messages, RFC 1320, FIPS 180 (1993), NIST SHAVS bit vectors). Data outside the fixed patterns and lengths beyond the bounds are not covered.'),
 'C02': dict(sec='2/C02, 8', tech='complete component domains (engine D) + enumerated variable-key/text/tweak families, keying forms, interleaved live instances and undefined sizes (engines P/H) against independent reference ciphers bound to OpenSSL/NESSIE/Skein vectors',
   text='All 65536 gmul pairs, every S-box cell and permutation-table entry of AES/DES/Serpent; for 9 cipher configurations the single-bit, repeated-byte, pattern, weak/semi-weak/parity key families, all 72 DES keys written over the weak-key byte alphabet, keys whose derived words take boundary values, block and tweak families; every Serpent key length and TDEA keying form; every ordered pair of configurations alive at the same time; AES states with two columns of the same unpadded spelling; Threefish blocks crafted so that the state after every subkey injection carries boundary words; 116 undefined key/tweak/block sizes incl. bit counts taken for byte counts (must raise).',
   note='Trusted: mc/refs/blockciphers.py (validated against OpenSSL-generated blocks each run), serpent.py (NESSIE), skein.py (Skein 1.3 vectors). Families plus complete component domains, not all 2^|K| keys.'),
 'C03': dict(sec='2/C03, 8', tech='complete domains of every exposed inverse pair (engine D) + key/block/tweak families and interleaved live instances (engines P/H); purely differential oracle',
   text='dec(enc(B))==B and enc(dec(B))==B with exact length over the C02 families for 9 cipher configurations, also with a second live instance of another configuration, on every DES key written over the weak-key byte alphabet, on Threefish blocks crafted to reach boundary internal states after every subkey injection, and (thorough) after 9000 other keys in the same process; AES Sbox/ShiftRows/MixColumns, DES IP, Serpent S-boxes/IP/FP/L, rol/ror for every width<=10/12 x amount x value, Salsa/ChaCha index maps on their complete or stated domains.',
   note='Trusted: nothing but the harness (composition equals identity).'),
 'C04': dict(sec='2/C04, 8', tech='bounded exhaustive enumeration of width x rate x bit order x bit length x output length x container (engine P) and explicit-state BFS over duplex / sponge / reconfiguration call sequences (engine H) against a bit-level reference sponge bound to hashlib',
   text='All 7 widths, every rate 1..b-1 for b<=50 (thorough 200) plus named non-byte rates, both bit orders, every bit length 0..2r+2 or every boundary residue, 7 output lengths, longer containers, bitlen=0, second calls on used objects, 64 KiB+ messages with non-byte rates; SHA3/SHAKE on every byte length to 2 rate blocks and 5..65 blocks vs hashlib; all sequences of duplex calls, plain and per-call-rate sponge calls and attribute reconfigurations to depth 3 against a reference duplex object; setrate / per-call-rate / refused-call histories to depth 4 (5).',
   note='Trusted: hashlib SHA-3/SHAKE and mc/refs/keccak.py (derived round constants / rho offsets, bound to hashlib and a b=200 vector each run).'),
 'C05': dict(sec='2/C05, 8', tech='bounded exhaustive enumeration of mode x padding x cipher x length x IV/counter (engine P), crafted ciphertext-collision messages, and explicit-state BFS over counter reconfiguration histories (engine H) against SP 800-38A written over the same block function',
   text='ECB/CBC under 5 paddings, CTR with byte/object counters at the wrap-around values, both CTS modes over a stub cipher of 8 block sizes (every length 0..4 blocks+1, up to 300 blocks, 3 data patterns incl. pad-colliding tails) and 9 real ciphers; messages built with cipher.dec so that a ciphertext block equals the IV / its predecessor / zero; all histories of counter.setup / enc / dec on one CTR object to depth 3, of ECB / CBC / CTR objects incl. IV reassignment and a transiently failing cipher stub; caller-supplied counter objects; SP 800-38A F vectors.',
   note='Trusted: sp800_* (10 lines) + mc/refs/padspec.py; the block function is the object under test (cipher correctness is C02). CTS: length + round trip only.'),
 'C06': dict(sec='2/C06, 8', tech='bounded exhaustive enumeration of cipher x key size x rounds x length, key/nonce families, the complete quarter-round on a boundary word alphabet (engines P/D), preset block counters via the guarded hook, explicit-state BFS over call histories: RC4 with (S,i,j) as state, Salsa20/ChaCha objects with caller-owned nonces, open generators, several related nonces and rejected requests (engine H)',
   text='Salsa20/ChaCha: both key sizes, every even round count, 16 lengths to 17 blocks (enc, length, dec, prefix property), single-bit key/nonce families, Salsa20 core on the 512-bit single-bit family, quarterround on all 10^4 word tuples of a boundary alphabet, keystream started around 2^32..2^64-2, one object under 4 nonces with related written forms on 18-block messages, one call on 65537 bytes (thorough 2 MiB + 100), nonces whose keystream block has two equal words (searched once, re-verified per run); RC4: every key length 1..256, every sequence of <=3 enc/keystream/dec calls (pieces up to 600 bytes, one key with a 64 KiB+ piece) vs reference stream and state.',
   note='Trusted: mc/refs/stream.py (spec examples, RFC 6229, OpenSSL ChaCha20/RC4 incl. a counter crossing 2^32). Hook BDCHT_CRYSP_VERIF (commit 942588d, add-only).'),
 'C07': dict(sec='2/C07, 8', tech='complete enumeration of all vectors up to width 13/16 and all byte strings up to 2 bytes (engine D), every byte length 1..40 x bit order x explicit size (engine P) against an integer model',
   text='All constructors, conversions and round trips for every (size,value) to width 13 (thorough 16); every byte string of length <=2 and every byte length 1..40 under every documented bit order, with 12 explicit sizes, negative byte-group orders included (judged by the Bits.load docstring), each order again in reverse sequence of use; big-endian pack at every size; generalized unpack for every byte count 1..40 and 27 lengths to 65537 with a tail.',
   note='Trusted: model_load (12 lines). Larger widths only on the boundary-value alphabet named by the property.'),
 'C08': dict(sec='2/C08, 8', tech='complete enumeration of all operand pairs / index expressions up to a width bound (engine D) + explicit-state BFS to the fixpoint over mutation histories on a live Bits (engine H) against a (size,value) model',
   text='Every operator on every vector / ordered pair up to width 7 (thorough 8), every index/slice/list read and write on widths <=5 (6) incl. assigning a vector to a permutation of itself; every result is then overwritten through the public mutators and the operation re-evaluated (results are independent objects); all mutation histories on one live vector to the fixpoint; index lists with negative positions, the list object unchanged; word-boundary widths to 2048; every augmented spelling (+= ... >>=) leaves other references to the left operand unchanged.',
   note='Trusted: the integer model in mc/checks/c08.py. Out-of-range integer indices are not judged.'),
 'C09': dict(sec='2/C09, 8', tech='bounded exhaustive enumeration of scheme x block size x length residue x bit length (engine P), complete malformed-padding domains for small blocks (engine D), explicit-state BFS over iterblocks histories and interleaved pad objects (engine H) against an integer padding specification',
   text='8 schemes x block sizes 8..1024 x every residue class over 0..3, 5, 17 (small blocks 33, 257) blocks x every L mod 8; blocks and counters read after each block, remove(); PKCS#7/X9.23 remove on complete small-block domains; inputs shorter than the pad they announce; all histories (continuations, final, refusals, calls after the pad) to depth 3/4; every ordered pair of 12 pad configurations alive together.',
   note='Trusted: mc/refs/padspec.py. Not judged: empty message under none/zero padding, bit lengths on byte-granular schemes, padcnt of length-strengthening schemes.'),
 'C10': dict(sec='2/C10, 8', tech='explicit-state BFS over call histories on real objects (engine H), every ordered pair of 77 configurations each in its own process, and long runs of distinct calls: per object kind one-shot, per-call-option, raising, perturbation and sibling-instance events; states deduplicated by the canonical form of object + sibling + changed library globals; oracle = the same event in a forked child that starts from the import-time state',
   text='53 object kinds incl. module-level singletons and siblings that differ in exactly one constructor aspect (key zero-extended, schema/version, other size); all histories of <=3 (thorough 5) calls; every judged call - also on the sibling - must return exactly what it returns in a pristine process; failing histories are minimised and classified by (kind, judged event, culprit set); 4692 (A used first, then B) pairs; 20 kinds answering 1100 (9000) distinct calls and then the first ones again; deep copies of every kind; byte strings as bytes / bytearray / memoryview / list through 24 kinds and constructor arguments as bytearray / memoryview.',
   note='Trusted: the harness only (differential). Module-level state is explored, not judged (harmless caches raise no alarm). HMAC.setkey / RC4 stream state are C13 / C06.'),
 'C11': dict(sec='2/C11, 8', tech='bounded exhaustive enumeration of bit/byte lengths, salts, containers and the full product of a BLAKE2 parameter alphabet (engine P); preset counters at every power of two and salted streaming on live objects (engine H); reference BLAKE with derived constants, hashlib / RFC 7693 compression for BLAKE2',
   text='BLAKE-224..512: every bit length 0..2B+cs+18, byte lengths to 4 blocks and 5..65 blocks, 6 salts x 3 containers, second calls on used objects, counters preset below every 2^k (k<2w), salted block-wise streaming; BLAKE2s/2b: every byte length 0..4 blocks+1 and to 257 blocks, every outlen, salt/personalization, full product of a 4x3x3x3x3x3 tree alphabet, parameter calls followed by default calls on one object, byte counter preset below every 2^k; 22 other configurations used first in a fresh process x 11 BLAKE / BLAKE2 calls.',
   note='Trusted: hashlib.blake2b/2s, mc/refs/blake.py (8 submission vectors per run), a written-out RFC 7693 compression. BLAKE2 keys / short salts not exercised.'),
 'C12': dict(sec='2/C12, 8', tech='bounded exhaustive enumeration of state size x bit length x output length x argument subsets x tree shapes (engine P) and preset UBI tweak positions (engine H) against an independent Threefish/UBI/Skein reference',
   text='Skein-256/512/1024: every bit length 0..2Nb+9 (quick: 256 only) with/without explicit bitlen, longer containers, 5..65-block messages, second calls on used objects; every output length multiple of 8 to 4Nb and one of 257 blocks; 5 key classes x 16 subsets of prs/PK/kdf/nonce; all 27 tree shapes x 8 sizes; messages whose leaf equals the chaining values of its neighbours (level confusion); UBI started below every 2^k, k=8..95.',
   note='Trusted: mc/refs/skein.py (16 spec vectors per run). Tree hashing with a bit length not exercised.'),
 'C13': dict(sec='2/C13, 8', tech='bounded exhaustive enumeration of hash x key length 0..3 blocks x message (engine P) + explicit-state BFS over setkey / MAC / caller-owned key buffer / foreign use of the shared hash object histories (engine H) against Python hmac / RFC 2104 over reference hashes',
   text='17 hashes (every class with a block size: + SHA-0, BLAKE2s/2b, MD6) x every key length 0..3 blocks (quick 17 boundary lengths) x ramp/random/constant (00, ff, 36, 5c) keys x 4-5 messages; all histories to depth 3/4 of setkey with 5 key classes, setkey with one mutable buffer overwritten in place, overwriting that buffer without setkey, direct use of the hash object by the caller (one-shot, salted / bit length, unfinished update), and MACs; message objects that define __bytes__.',
   note='Trusted: Python hmac/hashlib, mc/refs/mdsha.py, mc/refs/blake.py.'),
 'C14': dict(sec='2/C14, 8', tech='explicit-state BFS over all update histories (compositions into block-aligned pieces incl. empty pieces, then a closing piece) on real hash objects with confluence and reference-digest oracles (engine H); complete cut positions for Nilsimsa (engine D)',
   text='16 hashes x messages of 0..3/4, 6, 9 (17) blocks + 5 tail classes: every history feed(0..3 blocks)* close; state after each piece equals a fresh object fed the prefix at once, counter equals bits fed, closing digest equals the reference; one 257-block piece per hash; messages of exactly 2^16 (thorough 2^20, 2^21) bytes one-shot vs two pieces vs hashlib; streams forked with copy.deepcopy; Nilsimsa: every 1-/2-cut of messages to 12/16 bytes, cuts of 35..100-byte and 64 KiB+ streams with accumulator-level comparison.',
   note='Trusted: hashlib / reference hashes. Known finding (recorded): BLAKE2 closing with an empty final piece after whole blocks.'),
 'C15': dict(sec='2/C15, 8', tech='complete enumeration of all byte strings up to 2 bytes and all width-8 polynomials (engine D); bounded enumeration of widths, lengths, positions and crafted targets (engine P) and explicit-state BFS over histories of the crc module (engine H) against zlib and bit-by-bit division',
   text='crc32 on every byte string of length <=2 and 6 patterns at every length to 64/128; table CRC on every width-8 polynomial and 4-7 polynomials of every width 8..64, the same polynomial value at several widths in one process; fixing functions on every position with 38 targets and targets crafted so that the fixing window is 00000000 / ffffffff / ...; backward computation at every position; all histories to depth 3/4 of table generation for 4 polynomials, generic CRCs and the CRC-32 helpers on one loaded module.',
   note='Trusted: zlib.crc32 and a 6-line bitwise reference.'),
 'C16': dict(sec='2/C16, 8', tech='complete enumeration of all vector pairs over Z/2^k for small k and dimension (engine D) + BFS to the fixpoint over assignment + operator histories with every attribute of the live objects in the state (engine H) against a list-of-ints model',
   text='Every ordered pair over Z/2, Z/4, Z/8 up to dimension 5/3/2 (thorough 6/4/3) through + - ^ & | //, re-evaluated after padding coefficients and results were overwritten in place; neg, shifts, every index/slice/list/tuple/range read and write, copies with dim, values shorter than the selection (value unchanged), a Bits scalar through every selector vs the same integer, the target itself as value vs an equal copy, SubPoly/Poly operand classes, augmented spellings; assignments (negative indices too) interleaved with operators on one live vector; the integer ring; split/pack on 5-8 element sizes.',
   note='Trusted: Python list arithmetic in mc/checks/c16.py. Out-of-range slices / pack big-endian not judged.'),
 'C17': dict(sec='2/C17, 8', tech='bounded exhaustive enumeration of digest size x mode x key x message shape x bit length x round count (engine P) against an independent MD6 reference',
   text='Every d in 1..512 (quick every 5th), L in {0,1,2,3,64} x 5 key lengths x 27 message lengths (1..65 leaves, every 512/384 boundary), every L\' mod 8 at 1-3 levels, default rounds for 5-11 digest sizes keyed / unkeyed / all-zero keys, explicit rounds 1..4095 (23-27 values incl. 167..170), second calls on used objects, the rounds attribute changed between calls, messages whose leaf equals the four chaining values of its neighbours (level confusion). Shapes at 12 rounds where every input word reaches the digest (self-tested).',
   note='Trusted: mc/refs/md6.py (3 spec examples + 3 published digests + sensitivity self-test per run).'),
 'C18': dict(sec='2/C18, 8', tech='enumeration of generated table networks (one program per key of an enumerated family, generated after neighbouring keys) each validated on block families and on blocks crafted to reach internal state classes, against reference DES (engine P/H)',
   text='37 (thorough 106) keys incl. parity bits, weak/semi-weak, parity-only variants: structure of all tables, key independence, evaluation on the single-bit block family; for 2 keys x every round 1..16 blocks computed with the reference so that the internal (L,R) state is zero / all-ones / half-zero / single-bit; tables regenerated from one Bits key object overwritten in place; the round tables of one key requested in every order of two (three) rounds on a freshly loaded module.',
   note='Trusted: reference DES bound to OpenSSL.'),
 'C19': dict(sec='2/C19, 8', tech='bounded exhaustive enumeration of all 30 TLSH configurations x length x content x force, all digest pairs, complete component domains on live objects with injected state (engines P/D) against paper/reference models',
   text='30 configurations x 12/16 lengths x 7 contents x force (None vs exact-length digest equal to the model, also on used objects); from_hash on produced / single-bit digests; all ordered digest pairs in 12 call forms (bytes, re-loaded, finalized-only and called objects) vs the model score; the length byte for every data length to 2^19 (2^23); the quartile-ratio byte for every pair q<=q3<=200 (400) with the bucket array set by hand; Nilsimsa every target and length 0..39 (bytes and str), Hamming distances.',
   note='Trusted: mc/refs/lsh.py (official vectors per run). 48 buckets with 18..24 non-empty buckets judged for type only.'),
 'C20': dict(sec='2/C20, 8', tech='complete enumeration of all small lists / multisets / item lists (engine D) against itertools and brute force; explicit-state BFS over call histories incl. caller-side mutation of arguments and results, and over two caller-held combink enumerations (engine H)',
   text='permutk on every list over {0,1,2} to length 5/6 and range(n) to 6/8; nextperm on every permutation and multiset arrangement; combink n<=6/7; exactsum/dynprog on every item list to length 5/6 over weights {1,2,3,5} x every target by brute force; all histories to depth 3/4 of 8 calls, calls on one caller-owned list overwritten in place, and scribbling on the last result, compared with brute force and with a freshly loaded module in a forked child; instances scaled by 22000 (targets beyond 2^16); zero-weight items; exactsum with a result list owned by the caller; two combink enumerations started / advanced / drained / closed / dropped in every order to depth 4/5.',
   note='Trusted: itertools + brute force. permutk judged after exhaustion; exactsum target 0 not judged.'),
}

PENDING = {}


def main():
    props = [json.loads(l) for l in open(os.path.join(HERE, 'properties.jsonl'))]
    checks = []
    na = []
    for p in props:
        i = p['id']
        if i in CHECKS:
            c = CHECKS[i]
            checks.append({
                'property_id': i,
                'quick_cmd': '/venv/bin/python /verif/run.py %s --tier quick' % i,
                'thorough_cmd': '/venv/bin/python /verif/run.py %s --tier thorough' % i,
                'evidence_file': '/verif/evidence/%s.json' % i,
                'replay_cmd_template': '/venv/bin/python /verif/run.py %s --replay {path}' % i,
                'engine': 'mc',
                'level_claimed': {'category': 'model_checking', 'text': c['text'], 'design_ref': 'DESIGN.md section ' + c['sec']},
                'level_note': c['note'],
                'technique': c['tech'],
            })
        else:
            na.append({'property_id': i, 'reason': PENDING.get(i, 'check not built yet in this session (planned in DESIGN.md section 2; bounded exhaustive exploration applies)')})
    hooks = json.load(open(os.path.join(HERE, 'tools', 'hooks.json')))
    m = {
        'version': 1,
        'setup_cmd': '/venv/bin/python /verif/tools/setup_check.py',
        'hooks': hooks,
        'engines': [{'name': 'mc', 'path': '/verif/mc/engine.py', 'serves_properties': sorted(CHECKS),
                     'kind_free_text': 'own explicit-state / product-space explorer driving the real Python code of /repo (engines P, H, D of DESIGN.md section 1); reference models under /verif/mc/refs'}],
        'checks': checks,
        'notes': 'All checks: /verif/run.py <ID> --tier quick|thorough; CRYSP_TREE selects the tree (default /repo). Known findings: /verif/known_findings.json.',
        'not_applicable': na,
    }
    json.dump(m, open(os.path.join(HERE, 'MANIFEST.json'), 'w'), indent=1)
    r = subprocess.run(['/opt/veriftools/pyvenv/bin/python', '-c',
                        'import json,jsonschema;jsonschema.validate(json.load(open("%s/MANIFEST.json")),json.load(open("/root/.vp/MANIFEST.schema.json")));print("MANIFEST valid")' % HERE])
    sys.exit(r.returncode)


if __name__ == '__main__':
    main()
