#!/venv/bin/python
"""recheck_seeds.py [quick|thorough]: apply every seeded/<ID>-<k>/patch.diff to a scratch worktree and run the check of
its property; report the ones that are no longer caught.  Writes seeded/RECHECK.txt."""
import subprocess, glob, os, sys, json
tier = sys.argv[1] if len(sys.argv) > 1 else 'quick'
out = []
missed = 0
for d in sorted(glob.glob('/verif/seeded/C*-*')):
    name = os.path.basename(d)
    prop = name.split('-')[0]
    r = subprocess.run(['/verif/tools/mutant.py', d + '/patch.diff', '--props', prop, '--tier', tier, '--nosuite'], capture_output=True, text=True)
    last = [l for l in r.stdout.split('\n') if l.startswith(('DETECTED', 'PATCH'))]
    line = '%s %s' % (name, last[0] if last else 'ERROR ' + r.stdout[-200:])
    if 'DETECTED-BY ' + prop not in line:
        missed += 1
        line += '   <-- not caught by its own property check'
    out.append(line)
    print(line, flush=True)
out.append('%d seeds, %d not caught by their own property check (tier %s)' % (len(out), missed, tier))
open('/verif/seeded/RECHECK.txt', 'w').write('\n'.join(out) + '\n')
print(out[-1])
