#!/venv/bin/python
"""recheck_seeds.py [names...]: apply every seeded/<ID>-<k>/patch.diff to a scratch worktree of /repo HEAD and run the
check of its property (quick, then thorough if quick is silent); report the ones that are no longer caught.
Writes seeded/RECHECK.txt and seeded/RECHECK.json (read by tools/matrix.py).  A seed whose patch no longer applies because
a later fix: commit rewrote the code it changed is listed as superseded (meta.json: superseded_by_fix)."""
import subprocess, glob, os, sys, json
from concurrent.futures import ThreadPoolExecutor
only = set(sys.argv[1:])
res = {}
old = {}
if only and os.path.exists('/verif/seeded/RECHECK.json'):
    old = json.load(open('/verif/seeded/RECHECK.json'))


def one(d):
    name = os.path.basename(d)
    prop = name.split('-')[0]
    meta = json.load(open(d + '/meta.json')) if os.path.exists(d + '/meta.json') else {}
    if meta.get('superseded_by_fix'):
        return name, {'status': 'superseded', 'by': meta['superseded_by_fix']}
    for tier in (('quick',) if os.environ.get('RECHECK_QUICK_ONLY') else ('quick', 'thorough')):
        r = subprocess.run(['/verif/tools/mutant.py', d + '/patch.diff', '--props', prop, '--tier', tier, '--nosuite'], capture_output=True, text=True)
        last = [l for l in r.stdout.split('\n') if l.startswith(('DETECTED', 'PATCH'))]
        line = last[0] if last else 'ERROR ' + (r.stdout + r.stderr)[-200:]
        cls = [l.split('class=')[1].split(' ')[0] for l in r.stdout.split('\n') if 'VIOLATION' in l and 'class=' in l]
        if 'DETECTED-BY ' + prop in line:
            return name, {'status': tier, 'class': cls[0] if cls else '?'}
        if 'INTERNAL' in r.stdout or not line.startswith('DETECTED'):
            return name, {'status': 'error', 'detail': line}
    return name, {'status': 'missed'}


dirs = [d for d in sorted(glob.glob('/verif/seeded/C*-*')) if not only or os.path.basename(d) in only]
with ThreadPoolExecutor(max_workers=int(os.environ.get('RECHECK_JOBS', '2'))) as ex:
    for name, r in ex.map(one, dirs):
        res[name] = r
        print(name, r, flush=True)
old.update(res)
res = dict(sorted(old.items()))
json.dump(res, open('/verif/seeded/RECHECK.json', 'w'), indent=1, sort_keys=True)
cnt = {}
for r in res.values():
    cnt[r['status']] = cnt.get(r['status'], 0) + 1
lines = ['%s %s' % (n, json.dumps(r, sort_keys=True)) for n, r in res.items()]
lines.append('%d seeds: %s' % (len(res), ', '.join('%d %s' % (v, k) for k, v in sorted(cnt.items()))))
open('/verif/seeded/RECHECK.txt', 'w').write('\n'.join(lines) + '\n')
print(lines[-1])
