#!/venv/bin/python
"""seedtest.py <PROP> <k> <dir-with-patchK.diff,demoK.py,noteK.md> [--tier quick]
Confirm a seeded change independently (suite green, demo fails with it and passes without it), run the
property's check against it, and store it under /verif/seeded/<PROP>-<k>/ with meta.json."""
import os, sys, subprocess, json, shutil, tempfile, time
prop, k, src = sys.argv[1], sys.argv[2], sys.argv[3]
label = sys.argv[4] if len(sys.argv) > 4 else k
tiers = ['quick', 'thorough']
patch = os.path.join(src, 'patch%s.diff' % k)
demo = os.path.join(src, 'demo%s.py' % k)
note = os.path.join(src, 'note%s.md' % k)
d = tempfile.mkdtemp(prefix='crysp-seed-', dir='/var/tmp')
os.rmdir(d)
meta = {'property': prop, 'k': label, 'ran_at_repo_commit': subprocess.check_output(['git', '-C', '/repo', 'log', '--format=%h', '-1'], text=True).strip()}
try:
    subprocess.check_call(['git', '-C', '/repo', 'worktree', 'add', '-q', '--detach', d, 'HEAD'])
    env = dict(os.environ, PYTHONPATH=d, PYTHONDONTWRITEBYTECODE='1')
    env.pop('BDCHT_CRYSP_VERIF', None)
    clean = subprocess.run(['/venv/bin/python', demo], env=env, capture_output=True, text=True, timeout=1800)
    meta['demo_exit_clean_tree'] = clean.returncode
    r = subprocess.run(['git', '-C', d, 'apply', os.path.abspath(patch)], capture_output=True, text=True)
    meta['patch_applies'] = r.returncode == 0
    if r.returncode:
        print('PATCH DOES NOT APPLY', r.stderr[:300])
    else:
        t = subprocess.run(['/venv/bin/python', '-m', 'pytest', '-q', '-p', 'no:cacheprovider', '--timeout=900', 'tests'], cwd=d, env=env, capture_output=True, text=True)
        meta['suite_with_change'] = t.stdout.strip().split('\n')[-1]
        mut = subprocess.run(['/venv/bin/python', demo], env=env, capture_output=True, text=True, timeout=1800)
        meta['demo_exit_with_change'] = mut.returncode
        meta['demo_output_with_change'] = (mut.stdout + mut.stderr)[-600:]
        meta['checks'] = {}
        for tier in tiers:
            t0 = time.time()
            c = subprocess.run(['/venv/bin/python', '/verif/run.py', prop, '--tier', tier], env=dict(os.environ, CRYSP_TREE=d), capture_output=True, text=True)
            v = [l for l in c.stdout.split('\n') if l.startswith('VIOLATION')]
            meta['checks'][tier] = {'exit': c.returncode, 'violation_classes': [x.split('class=')[1].split(' ')[0] for x in v][:12], 'n_classes': len(v),
                                    'internal_error': [l for l in c.stdout.split('\n') if l.startswith('INTERNAL')][:2], 'wall_s': round(time.time() - t0, 1)}
            if v:
                break
        meta['detected'] = any(x['n_classes'] for x in meta['checks'].values())
        if not meta['detected'] and not os.environ.get('SEEDTEST_NO_OTHERS'):
            # does the check of another property catch it?  (quick tier of every other check)
            others = {}
            for q in ['C%02d' % i for i in range(1, 21)]:
                if q == prop:
                    continue
                c = subprocess.run(['/venv/bin/python', '/verif/run.py', q, '--tier', 'quick'], env=dict(os.environ, CRYSP_TREE=d), capture_output=True, text=True)
                v = [l for l in c.stdout.split('\n') if l.startswith('VIOLATION')]
                if v:
                    others[q] = [x.split('class=')[1].split(' ')[0] for x in v][:4]
            meta['detected_by_other_properties'] = others
    meta['valid_seed'] = bool(meta.get('patch_applies') and meta.get('demo_exit_clean_tree') == 0 and meta.get('demo_exit_with_change') not in (0, None)
                              and '120 passed' in meta.get('suite_with_change', ''))
finally:
    subprocess.run(['git', '-C', '/repo', 'worktree', 'remove', '--force', d], capture_output=True)
    shutil.rmtree(d, ignore_errors=True)
    subprocess.run(['git', '-C', '/repo', 'worktree', 'prune'], capture_output=True)
out = '/verif/seeded/%s-%s' % (prop, label)
os.makedirs(out, exist_ok=True)
shutil.copy(patch, out + '/patch.diff')
shutil.copy(demo, out + '/demo.py')
if os.path.exists(note):
    shutil.copy(note, out + '/note.md')
    meta['needs_to_manifest'] = open(note).read()[:1500]
meta['what_was_run'] = 'tools/seedtest.py: scratch worktree of /repo HEAD; demo on clean tree; git apply patch; pinned suite; demo with change; run.py %s quick (then thorough if quick is silent) with CRYSP_TREE=scratch' % prop
json.dump(meta, open(out + '/meta.json', 'w'), indent=1)
print(json.dumps({k_: meta[k_] for k_ in ('valid_seed', 'detected', 'detected_by_other_properties', 'suite_with_change', 'demo_exit_clean_tree', 'demo_exit_with_change') if k_ in meta}), json.dumps(meta.get('checks', {}))[:600])
