#!/bin/bash
# runall.sh quick|thorough : run every check of MANIFEST.json on $CRYSP_TREE (default /repo); summary line per property
tier=${1:-quick}
rc=0
for p in C01 C02 C03 C04 C05 C06 C07 C08 C09 C10 C11 C12 C13 C14 C15 C16 C17 C18 C19 C20; do
  out=$(/venv/bin/python /verif/run.py $p --tier $tier ${NOEV:+--no-evidence} 2>&1); e=$?
  echo "$out" | grep -E "^(VIOLATION|INTERNAL|KNOWN)" | cut -c1-220
  echo "$out" | tail -1 | cut -c1-200 | sed "s/^/[exit $e] /"
  [ $e -ne 0 ] && rc=1
done
exit $rc
