#!/opt/veriftools/pyvenv/bin/python
import json, jsonschema, sys, glob
sch = json.load(open('/root/.vp/EVIDENCE.schema.json'))
bad = 0
for f in sorted(glob.glob('/verif/evidence/*.json')):
    try:
        jsonschema.validate(json.load(open(f)), sch)
    except Exception as e:
        bad += 1
        print('INVALID', f, str(e)[:300])
jsonschema.validate(json.load(open('/verif/MANIFEST.json')), json.load(open('/root/.vp/MANIFEST.schema.json')))
print('evidence files valid' if not bad else 'evidence INVALID', len(glob.glob('/verif/evidence/*.json')))
sys.exit(1 if bad else 0)
