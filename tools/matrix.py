#!/venv/bin/python
"""write seeded/MATRIX.md: which check catches which seeded change"""
import json, glob, os
rows = []
now = json.load(open('/verif/seeded/RECHECK.json')) if os.path.exists('/verif/seeded/RECHECK.json') else {}
for f in sorted(glob.glob('/verif/seeded/*/meta.json'), key=lambda p: (p.split('/')[-2].split('-')[0], int(p.split('/')[-2].split('-')[1]))):
    m = json.load(open(f))
    name = f.split('/')[-2]
    tiers = m.get('checks', {})
    hit = [t for t in ('quick', 'thorough') if tiers.get(t, {}).get('n_classes')]
    cls = (tiers[hit[0]]['violation_classes'][0] if hit else '-')
    other = m.get('detected_by_other_properties') or {}
    need = (m.get('needs_to_manifest') or '').replace('\n', ' ')
    need = need[:160]
    n_ = now.get(name, {})
    cur = n_.get('status', '?') + ((' `%s`' % n_['class']) if n_.get('class') else '') + ((' by ' + n_['by']) if n_.get('by') else '')
    rows.append((name, 'yes' if m.get('valid_seed') else 'NO', hit[0] if hit else ('other: ' + ','.join(sorted(other)) if other else 'MISSED'), cls, cur, need))
out = ['# Seeded changes and the checks that catch them', '',
       'Each change was written by a sub-agent that saw only the property text (waves 1..5: `-1`,`-2` | `-3`,`-4` | `-5`,`-6` | `-7`,`-8` | `-9`,`-10`; each wave was told what the harness covered after the previous one),',
       'confirmed by tools/seedtest.py (suite 120 green with the change, demo fails with it and passes without it), and run against',
       'the check of its property (quick tier, then thorough). Column "as delivered" = that first run (before any strengthening); column "now" = the current checks of that property', '(tools/recheck_seeds.py: quick, then thorough; superseded = a later fix: commit rewrote the code the change edits).', '',
       '| seed | valid | as delivered: caught by tier | first violation class then | now | what it needs to manifest |', '|---|---|---|---|---|---|']
for r in rows:
    out.append('| %s | %s | %s | `%s` | %s | %s |' % r)
n = len(rows)
q = sum(1 for r in rows if r[2] == 'quick')
t = sum(1 for r in rows if r[2] == 'thorough')
o = sum(1 for r in rows if r[2].startswith('other'))
out += ['', 'As delivered: %d seeded changes: %d caught by the quick tier of their property, %d only by the thorough tier, %d only by the check of another property, %d missed.' % (n, q, t, o, n - q - t - o)]
cnt = {}
for v in now.values():
    cnt[v['status']] = cnt.get(v['status'], 0) + 1
out += ['', 'Now (own property check only): ' + ', '.join('%d %s' % (v, k) for k, v in sorted(cnt.items())) + '.']
NOTES = ['', 'The 13 changes that the check of their own property does not report now:',
         '* caught by the check of the property they really break: C01-11 (C14 forked streams), C02-12 and C02-8 (C10 deep copies / histories), C10-9 (C04 rate reconfiguration), C13-4 (C08 operators);',
         '* deliberately not judged (DESIGN.md 8.4): C04-11, C13-12, C14-12 (behaviour after copy.copy), C09-10 (python -O only), C09-11 (the caller rewrites the message during one iteration), C14-11 (the caller saves and re-installs internal chaining words), C01-12 (two threads; explored by C10 nested-calls, a verdict only with VERIF_JUDGE_NESTED=1);',
         '* missed: C02-7 (needs two DES keys whose CRC-32 collide - a collision of a function the change itself chose).']
out += NOTES
open('/verif/seeded/MATRIX.md', 'w').write('\n'.join(out) + '\n')
print(out[-1])
