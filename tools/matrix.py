#!/venv/bin/python
"""write seeded/MATRIX.md: which check catches which seeded change"""
import json, glob, os
rows = []
for f in sorted(glob.glob('/verif/seeded/*/meta.json')):
    m = json.load(open(f))
    name = f.split('/')[-2]
    tiers = m.get('checks', {})
    hit = [t for t in ('quick', 'thorough') if tiers.get(t, {}).get('n_classes')]
    cls = (tiers[hit[0]]['violation_classes'][0] if hit else '-')
    other = m.get('detected_by_other_properties') or {}
    need = (m.get('needs_to_manifest') or '').replace('\n', ' ')
    need = need[:160]
    rows.append((name, 'yes' if m.get('valid_seed') else 'NO', hit[0] if hit else ('other: ' + ','.join(sorted(other)) if other else 'MISSED'), cls, need))
out = ['# Seeded changes and the checks that catch them', '',
       'Each change was written by a sub-agent that saw only the property text (wave 1: `-1`,`-2`; wave 2 "hard to find": `-3`,`-4`),',
       'confirmed by tools/seedtest.py (suite 120 green with the change, demo fails with it and passes without it), and run against',
       'the check of its property (quick tier, then thorough).', '',
       '| seed | valid | caught by tier | first violation class | what it needs to manifest |', '|---|---|---|---|---|']
for r in rows:
    out.append('| %s | %s | %s | `%s` | %s |' % r)
n = len(rows)
q = sum(1 for r in rows if r[2] == 'quick')
t = sum(1 for r in rows if r[2] == 'thorough')
o = sum(1 for r in rows if r[2].startswith('other'))
out += ['', '%d seeded changes: %d caught by the quick tier of their property, %d only by the thorough tier, %d only by the check of another property, %d missed.' % (n, q, t, o, n - q - t - o)]
open('/verif/seeded/MATRIX.md', 'w').write('\n'.join(out) + '\n')
print(out[-1])
