#!/opt/veriftools/pyvenv/bin/python
"""development-time search (numpy, tooling venv): nonces for which a Salsa20 / ChaCha keystream block has two equal
32-bit output words (probability 2^-25 per block).  Writes kats/stream_equal_words.json; every entry is re-verified with
the pure-Python reference (mc/refs/stream.py) at the start of every C06 run."""
import numpy as np, json, sys, os
sys.path.insert(0, os.path.dirname(os.path.dirname(os.path.abspath(__file__))))
U = np.uint32


def rol(x, n):
    return (x << U(n)) | (x >> U(32 - n))


def salsa_core(x, rounds):
    x = [a.copy() for a in x]
    z = [a.copy() for a in x]

    def qr(a, b, c, d):
        z[b] ^= rol(z[a] + z[d], 7)
        z[c] ^= rol(z[b] + z[a], 9)
        z[d] ^= rol(z[c] + z[b], 13)
        z[a] ^= rol(z[d] + z[c], 18)
    for _ in range(rounds // 2):
        qr(0, 4, 8, 12); qr(5, 9, 13, 1); qr(10, 14, 2, 6); qr(15, 3, 7, 11)
        qr(0, 1, 2, 3); qr(5, 6, 7, 4); qr(10, 11, 8, 9); qr(15, 12, 13, 14)
    return [z[i] + x[i] for i in range(16)]


def chacha_core(x, rounds):
    z = [a.copy() for a in x]

    def qr(a, b, c, d):
        z[a] += z[b]; z[d] ^= z[a]; z[d] = rol(z[d], 16)
        z[c] += z[d]; z[b] ^= z[c]; z[b] = rol(z[b], 12)
        z[a] += z[b]; z[d] ^= z[a]; z[d] = rol(z[d], 8)
        z[c] += z[d]; z[b] ^= z[c]; z[b] = rol(z[b], 7)
    for _ in range(rounds // 2):
        qr(0, 4, 8, 12); qr(1, 5, 9, 13); qr(2, 6, 10, 14); qr(3, 7, 11, 15)
        qr(0, 5, 10, 15); qr(1, 6, 11, 12); qr(2, 7, 8, 13); qr(3, 4, 9, 14)
    return [z[i] + x[i] for i in range(16)]


def state(cipher, key, n0, N):
    k = np.frombuffer(key, dtype='<u4')
    if len(key) == 32:
        k0, k1 = k[:4], k[4:]
        c = np.frombuffer(b'expand 32-byte k', dtype='<u4')
    else:
        k0 = k1 = k
        c = np.frombuffer(b'expand 16-byte k', dtype='<u4')
    full = lambda v: np.full(N, v, dtype=U)
    nonce_lo = (np.arange(n0, n0 + N, dtype=np.uint64) & np.uint64(0xffffffff)).astype(U)
    nonce_hi = (np.arange(n0, n0 + N, dtype=np.uint64) >> np.uint64(32)).astype(U)
    z = np.zeros(N, dtype=U)
    if cipher == 'salsa20':
        return [full(c[0])] + [full(v) for v in k0] + [full(c[1]), nonce_lo, nonce_hi, z, z.copy(), full(c[2])] + [full(v) for v in k1] + [full(c[3])]
    return [full(v) for v in c] + [full(v) for v in k0] + [full(v) for v in k1] + [z, z.copy(), nonce_lo, nonce_hi]


def search(cipher, keylen, rounds, want=2, chunk=1 << 20, limit=1 << 29):
    key = bytes(range(keylen))
    hits = []
    n0 = 0
    while len(hits) < want and n0 < limit:
        out = (salsa_core if cipher == 'salsa20' else chacha_core)(state(cipher, key, n0, chunk), rounds)
        m = np.stack(out)                       # 16 x N
        s = np.sort(m, axis=0)
        eq = (s[1:] == s[:-1]).any(axis=0)
        for i in np.nonzero(eq)[0]:
            words = [int(v) for v in m[:, i]]
            pos = [(a, b) for a in range(16) for b in range(a + 1, 16) if words[a] == words[b]]
            hits.append({'cipher': cipher, 'key': key.hex(), 'rounds': rounds, 'nonce': int(n0 + i), 'block': 0, 'equal_words': pos[0], 'value': '%08x' % words[pos[0][0]]})
        n0 += chunk
        print(cipher, keylen, rounds, 'searched', n0, 'hits', len(hits), flush=True)
    return hits[:want]


if __name__ == '__main__':
    np.seterr(over='ignore')
    allh = []
    for cipher in ('salsa20', 'chacha'):
        for keylen, rounds in ((32, 20), (32, 8), (16, 20), (32, 12)):
            allh += search(cipher, keylen, rounds)
    json.dump(allh, open(os.path.join(os.path.dirname(os.path.dirname(os.path.abspath(__file__))), 'kats', 'stream_equal_words.json'), 'w'), indent=1)
    print(len(allh), 'entries')
