#!/bin/bash
# fixcommit.sh "<message starting with fix:>" : run suite, commit working-tree change in /repo
set -e
out=$(bash /verif/tools/suite.sh /repo)
echo "$out"
echo "$out" | grep -q "120 passed" || { echo "SUITE NOT GREEN"; exit 1; }
cd /repo && git add -A crysp && git commit -q -m "$1" && git log --oneline | head -1
