#!/venv/bin/python
"""run.py <ID> [--tier quick|thorough] [--only sub,sub] [--replay file] [--workers n]

exit 0: property held on everything explored (known findings are printed, not counted)
exit 1: `VIOLATION property=<ID> replay=<path>` printed for every new failure class
exit 2: internal error of the machinery (reference self-test failed, replay diverged)
"""
import os, sys, json, time, argparse, importlib, subprocess, shutil

HERE = os.path.dirname(os.path.abspath(__file__))
sys.path.insert(0, HERE)
os.environ.setdefault('PYTHONHASHSEED', '0')
from mc import engine  # noqa


def load_known():
    p = os.path.join(HERE, 'known_findings.json')
    if not os.path.exists(p):
        return []
    return json.load(open(p))['findings']


def main():
    ap = argparse.ArgumentParser()
    ap.add_argument('prop')
    ap.add_argument('--tier', default=os.environ.get('VERIF_TIER', 'quick'), choices=['quick', 'thorough'])
    ap.add_argument('--only', default=None)
    ap.add_argument('--replay', default=None)
    ap.add_argument('--workers', type=int, default=None)
    ap.add_argument('--no-evidence', action='store_true')
    a = ap.parse_args()
    prop = a.prop.upper()
    seed = int(os.environ.get('VERIF_SEED', '0') or 0)
    try:
        engine.bind_tree()
        mod = importlib.import_module('mc.checks.' + prop.lower())
        subs = mod.subchecks()
        if a.replay:
            return replay(prop, subs, a.replay)
        t0 = time.time()
        st = getattr(mod, 'selftest', None)
        stinfo = st() if st else None
        cov, fails, counts, wall = engine.run_property(prop, subs, a.tier, a.workers,
                                                       a.only.split(',') if a.only else None)
    except engine.InternalError as e:
        print('INTERNAL-ERROR property=%s %s' % (prop, e))
        return 2
    known = [k for k in load_known() if k['property'] == prop]
    kn = {k['class_key']: k for k in known if k.get('status', 'known') == 'known'}
    alt = os.path.realpath(engine.TREE) != '/repo'     # a scratch tree: never touch the committed evidence
    rdir = os.path.join(HERE, *(['replays-alt', os.path.basename(os.path.realpath(engine.TREE))] if alt else ['replays']), prop)
    if os.path.isdir(rdir):
        shutil.rmtree(rdir)
    new = []
    seen_known = []
    for ck, fl in fails.items():
        if ck in kn:
            seen_known.append(ck)
            print('KNOWN-FINDING: property=%s %s [%s; %d case(s) this run]' % (prop, kn[ck]['what'], ck, counts[ck]))
            continue
        os.makedirs(rdir, exist_ok=True)
        f = fl[0]
        path = os.path.join(rdir, '%03d.json' % len(new))
        json.dump({'property': prop, 'tier': a.tier, 'tree': engine.TREE, 'subcheck': f['subcheck'],
                   'class_key': ck, 'point': f['point'], 'expected': f['expected'],
                   'observed': f['observed'], 'note': f.get('note'), 'cases_in_class': counts[ck]},
                  open(path, 'w'), indent=1)
        new.append((ck, path, f))
    # every violation must reproduce from its replay file in a fresh interpreter
    rc = 0
    for ck, path, f in new[:8]:
        env = dict(os.environ)
        r = subprocess.run([sys.executable, os.path.abspath(__file__), prop, '--replay', path],
                           capture_output=True, text=True, env=env)
        if r.returncode != 1 or 'VIOLATION' not in r.stdout:
            print('INTERNAL-ERROR property=%s replay of %s did not reproduce (exit %d)\n%s%s'
                  % (prop, path, r.returncode, r.stdout[-2000:], r.stderr[-2000:]))
            rc = 2
    for ck, path, f in new:
        print('VIOLATION property=%s replay=%s class=%s cases=%d expected=%s observed=%s'
              % (prop, path, ck, counts[ck], engine.short(f['expected'], 120), engine.short(f['observed'], 120)))
    samples = []
    for p in cov['subchecks']:
        if p['first_point'] is not None:
            samples.append({'subcheck': p['name'], 'first': p['first_point'], 'last': p['last_point']})
        for h in p.get('sample_histories', [])[:3]:
            samples.append({'subcheck': p['name'], 'explored_history': h})
    cov['samples'] = samples
    cov['rule'] = getattr(mod, 'RULE', 'complete enumeration of the finite spaces named per subcheck (bound field); '
                          'distinct_nontrivial = number of distinct observed outcomes (hash of every value compared by an oracle)')
    cov['known_findings_seen'] = seen_known
    cov['violation_classes'] = [ck for ck, _, _ in new]
    if stinfo:
        cov['reference_selftest'] = stinfo
    if a.only:
        cov['exhaustive'] = False
        cov['only'] = a.only
    ev = {'property_id': prop, 'tier': a.tier, 'seed': seed, 'level': 'model_checking', 'coverage': cov,
          'assumptions': getattr(mod, 'ASSUMPTIONS', []) + [
              'VERIF_SEED is recorded but unused: the checks make no random choice',
              'tree under test: ' + engine.TREE],
          'wall_s': round(time.time() - t0, 2), 'violations': len(new)}
    if not a.no_evidence and not a.only and not alt:
        os.makedirs(os.path.join(HERE, 'evidence'), exist_ok=True)
        tmp = os.path.join(HERE, 'evidence', prop + '.json.tmp')
        json.dump(ev, open(tmp, 'w'), indent=1)
        os.replace(tmp, os.path.join(HERE, 'evidence', prop + '.json'))
    slow = max([(p.get('extra', {}).get('max_point_cpu_s', 0), p['name']) for p in cov['subchecks']] or [(0, '-')])
    print('%s tier=%s points=%d states=%d transitions=%d comparisons=%d distinct_outcomes=%d new_classes=%d known=%d slowest_point=%ds(%s) wall=%.1fs'
          % (prop, a.tier, cov['evaluations'], cov['states'], cov['transitions'],
             cov['traces_validated_against_impl'], cov['distinct_nontrivial'], len(new), len(seen_known), slow[0], slow[1], time.time() - t0))
    if rc == 2:
        return 2
    return 1 if new else 0


def replay(prop, subs, path):
    rp = json.load(open(path))
    sub = [s for s in subs if s.name == rp['subcheck']]
    if not sub:
        print('INTERNAL-ERROR no subcheck %s' % rp['subcheck'])
        return 2
    sub = sub[0]
    ctx = engine.Ctx(prop, sub.name)
    pt = engine.unjson(rp['point'])
    try:
        engine.arm()
        try:
            sub.run(ctx, pt)
        finally:
            engine.disarm()
    except engine.PointTimeout as e:
        ctx.fail('%s/%s/point-timeout' % (prop, sub.name), 'the point completes', str(e))
    except Exception as e:
        import traceback
        ctx.fail('%s/%s/harness-exception/%s' % (prop, sub.name, type(e).__name__), 'no exception', traceback.format_exc(limit=6))
    hit = [f for f in ctx.fails if f['class_key'] == rp['class_key']]
    for f in ctx.fails:
        print('replay: class=%s expected=%s observed=%s' % (f['class_key'], f['expected'], f['observed']))
    if hit:
        print('VIOLATION property=%s replay=%s' % (prop, path))
        return 1
    print('replay: no failure of class %s' % rp['class_key'])
    return 0


if __name__ == '__main__':
    sys.exit(main())
